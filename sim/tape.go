package sim

// Choice tape: the only source of nondeterminism in a run.
//
// In generate mode values are drawn from a splitmix64 stream seeded from the
// run seed and recorded. In replay mode recorded values are returned; a
// missing or out-of-range value becomes 0. Value 0 is by convention the
// simplest behaviour at every call site (first task, whole buffer, no delay,
// no fault), which is what makes tape minimisation meaningful.

type Tape struct {
	state     uint64
	replaying bool
	replay    []int32
	pos       int
	Rec       []int32
	forced    []int32
	Named     map[string]int32 // generate mode: values for named choices (exhaustive sweeps); recorded like any other
}

func splitmix(x *uint64) uint64 {
	*x += 0x9E3779B97F4A7C15
	z := *x
	z = (z ^ (z >> 30)) * 0xBF58476D1CE4E5B9
	z = (z ^ (z >> 27)) * 0x94D049BB133111EB
	return z ^ (z >> 31)
}

// Mix derives an independent 64-bit seed from a base seed and two labels.
func Mix(base uint64, a, b uint64) uint64 {
	x := base ^ 0xD6E8FEB86659FD93
	splitmix(&x)
	x ^= a * 0x9E3779B97F4A7C15
	splitmix(&x)
	x ^= b * 0xC2B2AE3D27D4EB4F
	return splitmix(&x)
}

func HashString(s string) uint64 {
	h := uint64(14695981039346656037)
	for i := 0; i < len(s); i++ {
		h ^= uint64(s[i])
		h *= 1099511628211
	}
	return h
}

func NewTape(seed uint64) *Tape { return &Tape{state: seed} }

func ReplayTape(vals []int32) *Tape {
	return &Tape{replaying: true, replay: vals}
}

// Choose returns a value in [0,n). n<=1 draws nothing.
func (t *Tape) Choose(n int) int {
	if n <= 1 {
		return 0
	}
	var v int
	if t.replaying {
		if t.pos < len(t.replay) {
			v = int(t.replay[t.pos])
			if v < 0 || v >= n {
				v = 0
			}
		}
		t.pos++
	} else if len(t.forced) > 0 {
		v = int(t.forced[0]) % n
		if v < 0 {
			v = 0
		}
		t.forced = t.forced[1:]
	} else {
		v = int(splitmix(&t.state) % uint64(n))
	}
	t.Rec = append(t.Rec, int32(v))
	return v
}

// Range returns a value in [lo,hi]; lo is the simplest.
func (t *Tape) Range(lo, hi int) int {
	if hi <= lo {
		return lo
	}
	return lo + t.Choose(hi-lo+1)
}

// Chance is true with probability num/den; false is the simplest (tape value 0).
func (t *Tape) Chance(num, den int) bool {
	if num <= 0 {
		return false
	}
	return t.Choose(den) >= den-num
}

// Pick chooses an index with the given integer weights; index 0 is simplest.
func (t *Tape) Pick(weights ...int) int {
	if !t.replaying && len(t.forced) > 0 {
		// a forced value (stratified sweep) names the alternative itself, not a point in the weighted range
		idx := int(t.forced[0]) % len(weights)
		if idx < 0 {
			idx = 0
		}
		v := 0
		for i := 0; i < idx; i++ {
			v += weights[i]
		}
		t.forced[0] = int32(v)
	}
	total := 0
	for _, w := range weights {
		total += w
	}
	v := t.Choose(total)
	for i, w := range weights {
		if v < w {
			return i
		}
		v -= w
	}
	return 0
}

// Bytes fills n tape-chosen bytes.
func (t *Tape) Bytes(n int) []byte {
	b := make([]byte, n)
	for i := range b {
		b[i] = byte(t.Choose(256))
	}
	return b
}

// U16 draws a 16-bit value biased to interesting values; 0 simplest.
func (t *Tape) U16() uint16 {
	switch t.Pick(3, 2, 1, 1) {
	case 0:
		return uint16(t.Choose(65536))
	case 1:
		return uint16(t.Choose(300))
	case 2:
		return uint16(65535 - t.Choose(300))
	default:
		// the values installations actually use and the ones where representations change: 0 first (simplest)
		return []uint16{0, 1, 0xFFFF, 0x00FF, 0x0100, 0x7FFF, 0x8000, 0xFF00, 255, 256, 40001 % 65536, 9999}[t.Choose(12)]
	}
}

// Force makes the next len(vals) draws (generate mode only) return the given
// values (reduced modulo the range). Used for stratified sweeps: the forced
// values are recorded like any other, so a replay needs no special casing.
func (t *Tape) Force(vals []int32) { t.forced = append(t.forced, vals...) }

// ChooseAs is Choose for a named decision: in generate mode a sweep can pin it through Named.
func (t *Tape) ChooseAs(name string, n int) int {
	if n <= 1 {
		return 0
	}
	if !t.replaying {
		if v, ok := t.Named[name]; ok {
			x := int(v) % n
			if x < 0 {
				x = 0
			}
			t.Rec = append(t.Rec, int32(x))
			return x
		}
	}
	return t.Choose(n)
}

// Has reports whether a sweep pinned the named decision (generate mode only).
func (t *Tape) Has(name string) bool {
	if t.replaying {
		return false
	}
	_, ok := t.Named[name]
	return ok
}

// PickAs is Pick for a named decision (a sweep pins the index, not the weighted draw).
func (t *Tape) PickAs(name string, weights ...int) int {
	if t.Has(name) {
		return t.ChooseAs(name, len(weights))
	}
	return t.Pick(weights...)
}
