package sim

// Process-wide installation of the tagged lock hooks of /repo. The hook variables are written once (at init);
// each run publishes its simulator through an atomic pointer, so goroutines of the code under test that outlive a
// run never race with the next run's set-up.

import (
	"sync"
	"sync/atomic"

	modbus "github.com/aldas/go-modbus-client"
	"github.com/aldas/go-modbus-client/server"
	"simsync"
)

var currentSim atomic.Pointer[Sim]

func init() {
	before := func(name string) func(l *sync.RWMutex, write bool) {
		return func(l *sync.RWMutex, write bool) {
			if s := currentSim.Load(); s != nil {
				s.BeforeLock(l, write, name)
			}
		}
	}
	after := func(l *sync.RWMutex) {
		if s := currentSim.Load(); s != nil {
			s.AfterLock(l)
		}
	}
	modbus.SimBeforeLock, modbus.SimAfterLock = before("client"), after
	server.SimBeforeLock, server.SimAfterLock = before("server"), after
	// In the copy of the library that bin/check builds, the mutex fields are of type simsync.RWMutex and the hook calls
	// above are gone: the mutex methods themselves call in here (see /verif/simsync).
	simsync.Install(&simsync.Hooks{
		BeforeLock: before("mu"),
		AfterLock:  after,
		Yield: func(l *sync.RWMutex) {
			if s := currentSim.Load(); s != nil {
				s.YieldAtTryLock(l)
			}
		},
	})
}

// Activate makes s the simulator that the lock hooks talk to; the returned function ends that.
func (s *Sim) Activate() func() {
	currentSim.Store(s)
	return func() { currentSim.CompareAndSwap(s, nil) }
}
