package sim

// C08 — a request call always terminates with a classified error on transport faults.

import (
	"bytes"
	"context"
	"errors"
	"fmt"
	"os"
	"reflect"
	"time"

	modbus "github.com/aldas/go-modbus-client"
)

func init() {
	Register(&Property{ID: "C08", Run: runC08, Strata: strataC08, Sweep: sweepC08})
}

// sweepC08: {stall, EOF, I/O error} x client kind x function x {normal, exception} x every prefix length 0..13 of the
// reply to a small request (prefix delivered in one read). Complete for replies of up to 14 bytes.
func sweepC08(tier string) []Stratum {
	var out []Stratum
	for fi := 0; fi < 3; fi++ { // c08Faults[0..2] = stall, eof, ioerr
		for kind := 0; kind < 3; kind++ {
			for fc := range AllFCs {
				for _, exc := range []int32{0, 4} {
					for p := int32(0); p < 14; p++ {
						out = append(out, Stratum{Prefix: []int32{int32(fi), int32(kind), int32(fc)}, Named: map[string]int32{"sizeclass": 3, "exc": exc, "prefix": p, "cutmode": 0, "gap": 0}})
					}
				}
			}
		}
	}
	return out
}

var c08Faults = []FaultKind{FStall, FEOF, FIOErr, FOversize, FWriteErr, FShortWrite, FCancelBefore, FCancelAfterWrite, FCancelAt, FCtxDeadline, FNotConnected, FNilRequest, FFlushFail, FDialFail, FWriteDeadlineErr}

// strata: (fault kind index, client kind, fc index): the first three draws of genC08.
func strataC08(tier string) [][]int32 {
	var out [][]int32
	for fi := range c08Faults {
		for kind := 0; kind < 3; kind++ {
			for fc := range AllFCs {
				out = append(out, []int32{int32(fi), int32(kind), int32(fc)})
			}
		}
	}
	return out
}

func genC08(rc *RunCtx) (*C1, bool) {
	t := rc.Scen
	fault := c08Faults[t.Choose(len(c08Faults))]
	sc, ok := genC1Base(t, true)
	if !ok {
		return sc, false
	}
	sc.Fault = fault
	if fault == FDialFail {
		if sc.Kind == KSerial {
			sc.Fault = FNotConnected
		} else {
			sc.TypedNilDial = t.Choose(2) == 1
		}
	}
	if fault == FWriteDeadlineErr && sc.Kind == KSerial {
		sc.Fault = FWriteErr // serial ports have no deadlines
	}
	if fault == FFlushFail {
		if sc.Kind != KSerial {
			sc.Fault = FIOErr // no flusher on network clients: plain I/O error instead
		} else {
			sc.Flusher = true
		}
	}
	full := sc.Reply
	sc.Full = full
	sc.DeadlinePort = sc.Kind == KSerial && !sc.Flusher && t.Choose(2) == 1
	sc.WrappedTimeouts = !t.Has("prefix") && t.Choose(3) == 0
	switch sc.Fault {
	case FIOErr, FWriteErr, FShortWrite, FWriteDeadlineErr:
		sc.IOErr = genIOErr(t)
	}
	n := len(full)
	// read timeout knob: keep stalls cheap most of the time
	sc.ReadTimeout = []time.Duration{20 * time.Millisecond, 5 * time.Millisecond, 100 * time.Millisecond, 2 * time.Second, 500 * time.Millisecond}[t.Pick(4, 3, 2, 1, 1)]
	if tiny := sc.Fault == FStall || sc.Fault == FEOF || sc.Fault == FIOErr || sc.Fault == FOversize; tiny && sc.Kind == KSerial && !t.Has("prefix") && t.Chance(1, 6) {
		// (not with the cancellation faults: a context that is done and a timeout that has fired in the same select are picked between at random by Go)
		sc.ReadTimeout = []time.Duration{0, 50 * time.Nanosecond, time.Microsecond}[t.Choose(3)] // a read timeout shorter than any polling interval (the option takes what it is given)
	}
	prefix := func() int {
		if t.Has("prefix") {
			return t.ChooseAs("prefix", n)
		}
		switch t.Pick(3, 1, 1, 1) {
		case 0:
			return t.Choose(n)
		case 1:
			return 0
		case 2:
			return n - 1
		default:
			return n - 1 - t.Choose(min(n, 4))
		}
	}
	switch sc.Fault {
	case FStall, FEOF, FIOErr, FFlushFail, FCancelAt, FCtxDeadline:
		p := prefix()
		if sc.Fault == FFlushFail && !t.Has("prefix") && t.Chance(2, 3) {
			p = n // the whole reply arrives: the client flushes the port when it has its frame, and that flush fails
		}
		sc.Reply = full[:p]
		sc.Chunks = genChunks(t, p)
		if p == 0 {
			sc.Chunks = nil
		}
		sc.FaultGap = gapOf(t)
		sc.ErrWithData = p > 0 && t.Chance(1, 4)
		if sc.Fault == FStall && p >= 3 && sc.ReadTimeout <= 100*time.Millisecond && !t.Has("prefix") && t.Chance(1, 3) {
			// slow drip: the prefix trickles in over more than the whole read timeout, every gap well below it
			k := 3 + t.Choose(min(4, p-2))
			sc.Chunks = nil
			left := p
			for i := 0; i < k; i++ {
				n := left / (k - i)
				sc.Chunks = append(sc.Chunks, Chunk{N: n, Gap: sc.ReadTimeout * 2 / 5})
				left -= n
			}
		}
		if sc.Fault == FCancelAt || sc.Fault == FCtxDeadline {
			// The transport stalls after the prefix; the only ways out are the cancel and the read timeout.
			// Both are polled by the client once per loop iteration with one select; if both became ready
			// within the same iteration Go's select would pick at random (not a tape decision), so the
			// cancel instant is kept at least one blocking-read period away from the timeout instant.
			h := sc.ReadTimeout
			b := 500 * time.Microsecond
			if sc.Kind == KSerial {
				h += 30 * time.Millisecond
				b = sc.PortTimeout
			}
			window := h - b - time.Millisecond
			switch {
			case t.Chance(1, 6):
				sc.CancelAt = h + b + time.Millisecond + time.Duration(t.Choose(5000))*time.Microsecond // after the call has ended
			case window > 0:
				sc.CancelAt = time.Duration(t.Choose(int(window/time.Microsecond)+1)) * time.Microsecond
			default:
				sc.CancelAt = 0
			}
			if sc.Fault == FCtxDeadline && sc.CancelAt == 0 {
				sc.CancelAt = time.Microsecond
			}
			if sc.Fault == FCtxDeadline {
				// The deadline is a runtime timer, not a simulator task: when it fires at the very instant at which the client
				// wakes from a sleep of its own (the serial client's 30 ms settle delay is not a seam), which of the two
				// goroutines runs first is Go's choice. Every instant of the scenario is a whole number of microseconds, so an
				// odd nanosecond offset keeps the deadline alone at its instant (met once in 7 million thorough runs, seed 61).
				sc.CancelAt += 137 * time.Nanosecond
			}
		}
	case FOversize:
		// the reply (or junk from the start) followed by junk, delivered in large reads
		total := 262 + t.Choose(400)
		buf := make([]byte, total)
		keep := 0
		if t.Choose(2) == 0 {
			keep = copy(buf, full)
		}
		junk := t.Bytes(8)
		for i := keep; i < total; i++ {
			buf[i] = junk[i%8] ^ byte(i)
		}
		sc.Reply = buf
		sc.Chunks = nil
		sc.Endless = t.Choose(3) == 0 // the flood never ends: the client has to stop reading by itself
		off := 0
		if keep > 0 && sc.Kind == KTCP && !sc.IsExc && sc.Req.FC >= 1 && sc.Req.FC <= 4 && len(full) >= 10 && t.Chance(1, 10) {
			// the eight genuine bytes up to the function code, then a flood whose first byte reads as a byte count that fits the
			// end of the next read: a frame that contradicts the length its own header announces
			b := int(full[8]) + 1 + t.Choose(20)
			if b <= 250 {
				buf[8] = byte(b)
				for i := 9; i < total; i++ {
					buf[i] = junk[i%8] ^ byte(i) ^ 0x33
				}
				sc.Chunks = append(sc.Chunks, Chunk{N: 8, Gap: gapOf(t)}, Chunk{N: 1 + b, Gap: gapOf(t)})
				off = 9 + b
				rc.Probe("flood_after_eight_genuine_bytes_fits_a_byte_count")
			}
		}
		if off == 0 && keep == 0 && t.Chance(1, 12) {
			// the flood begins with something that is a well-formed frame - of another function, from somebody else's
			// conversation (other transaction id / unit id): nothing a client may take for the reply to this request
			other := []byte{1, 2, 3, 4}[t.Choose(4)]
			if other == sc.Req.FC {
				other = other%4 + 1
			}
			hdr := 9
			if sc.Kind != KTCP {
				hdr = 5
			}
			b := 1 + t.Choose(40)
			if need := sc.LibReq.ExpectedResponseLength() - hdr; b < need {
				b = need
			}
			if b <= 250 {
				pdu := append([]byte{other, byte(b)}, buf[hdr:hdr+b]...)
				var fr []byte
				if sc.Kind == KTCP {
					fr = FrameTCP(sc.TID^0x5a5a, sc.Unit^0x21, pdu)
				} else {
					fr = FrameRTU(sc.Unit^0x21, pdu)
				}
				copy(buf, fr)
				sc.Chunks = append(sc.Chunks, Chunk{N: len(fr), Gap: gapOf(t)})
				off = len(fr)
				rc.Probe("flood_starts_with_a_frame_of_another_conversation")
			}
		}
		if off == 0 && keep > 0 && t.Choose(3) == 0 {
			// the first k bytes of the valid reply arrive on their own (k may cover a whole header), then the flood
			h := 1 + t.Choose(min(keep, 14))
			if t.Choose(2) == 0 {
				// only the head is genuine: what follows it is the flood itself, not the rest of the reply
				for i := h; i < keep; i++ {
					buf[i] = junk[i%8] ^ byte(i) ^ 0x5a
				}
			}
			sc.Chunks = append(sc.Chunks, Chunk{N: h, Gap: gapOf(t)})
			off = h
		} else if off == 0 && t.Choose(3) == 0 {
			// a short head first (shorter than any reply), then the rest in large pieces
			h := 1 + t.Choose(4)
			sc.Chunks = append(sc.Chunks, Chunk{N: h, Gap: gapOf(t)})
			off = h
		}
		for off < total {
			sz := 150 + t.Choose(200)
			if t.Choose(3) == 0 {
				sz = total
			}
			if off+sz > total {
				sz = total - off
			}
			sc.Chunks = append(sc.Chunks, Chunk{N: sz, Gap: gapOf(t)})
			off += sz
		}
	default:
		sc.Chunks = genChunks(t, n)
	}
	return sc, true
}

func runC08(rc *RunCtx) {
	sc, ok := genC08(rc)
	if !ok {
		rc.Probe("ctor_refused")
		return
	}
	if sc.Fault == FCancelBefore || sc.Fault == FCancelAfterWrite || sc.Fault == FCancelAt || sc.Fault == FCtxDeadline {
		sc.CtxWithCause = !rc.Scen.Has("prefix") && rc.Scen.Choose(3) == 0
	}
	if !rc.Scen.Has("prefix") && rc.Scen.Chance(1, 12) {
		// user code that the client calls may fail: a logging hook panics once (a formatter indexing past what it was given),
		// the application recovers the panic around its polling step and goes on - the client must still answer
		if first, ok := genC07Kind(rc, int(sc.Kind)); ok {
			if next, ok := genC07Kind(rc, int(sc.Kind)); ok {
				first.Hooks, first.PanicHook = true, []string{"write", "read", "parse"}[rc.Scen.Choose(3)]
				first.LongSilence, next.LongSilence = false, false
				next.Chunks = []Chunk{{N: len(next.Reply)}}
				next.ReadTimeout, next.PortTimeout, next.TOStyle, next.Flusher, next.WriteTimeout = first.ReadTimeout, first.PortTimeout, first.TOStyle, first.Flusher, first.WriteTimeout
				next.Then, first.Then = nil, next
				out := RunC1(rc, first)
				rc.Desc = first.describe()
				rc.Desc["hook_that_panics_once"] = first.PanicHook
				rc.Nontrivial = true
				rc.Fault("hook_panics_once:"+first.PanicHook, out.HookPanicked)
				base := fmt.Sprintf("client=%s|after_hook_panic=%s", first.Kind, first.PanicHook)
				if out.Panic != nil {
					rc.Violate("panic", base, "panic in %s: %s", out.Panic.Task, out.Panic.Value)
					return
				}
				if !out.Returned || len(out.Next) != 1 || !out.Next[0].Returned {
					rc.Violate("hang", base, "after a hook panicked inside Do (recovered by the application: %v) the next call on the same client did not return (first returned=%v, hang=%v, overstep=%v)", out.HookPanicked, out.Returned, out.Hang, out.OverStep)
					return
				}
				o := out.Next[0]
				bound := first.ReadTimeout + 500*time.Microsecond + time.Millisecond
				if first.Kind == KSerial {
					bound = first.ReadTimeout + first.PortTimeout + 30*time.Millisecond + time.Millisecond
				}
				if o.Elapsed > bound {
					rc.Violate("unbounded", base, "the call after the recovered hook panic returned after %v simulated; bound %v", o.Elapsed, bound)
				}
				return
			}
		}
	}
	// a call that gave up must leave the client usable: sometimes another call follows on the same client
	var follow *C1
	if sc.Fault == FStall && !rc.Scen.Has("prefix") && rc.Scen.Chance(1, 3) {
		if rc.Scen.Choose(2) == 0 {
			c := *sc // the transport stalls again
			c.Then = nil
			follow = &c
		} else if n, ok := genC07Kind(rc, int(sc.Kind)); ok {
			n.ReadTimeout, n.PortTimeout, n.TOStyle, n.Flusher, n.WriteTimeout = sc.ReadTimeout, sc.PortTimeout, sc.TOStyle, sc.Flusher, sc.WriteTimeout
			if need := 2*totalGap(n.Chunks) + 50*time.Millisecond; sc.ReadTimeout < need {
				n.Chunks = []Chunk{{N: len(n.Reply)}} // keep the first call's timeout: deliver the healthy reply at once
			}
			n.Then = nil
			follow = n
		}
		sc.Then = follow
	}
	if plain := sc.Fault == FStall || sc.Fault == FEOF || sc.Fault == FIOErr || sc.Fault == FOversize; follow == nil && plain && sc.Kind != KSerial && !rc.Scen.Has("prefix") && rc.Scen.Chance(1, 8) {
		// the faulty exchange is not the client's first: a healthy one came before, then the application connected again
		// (with or without closing first) - whatever the client remembers from the old connection must not matter
		if pre, ok := genC07Kind(rc, int(sc.Kind)); ok {
			pre.ReadTimeout, pre.WriteTimeout, pre.WrappedTimeouts = sc.ReadTimeout, sc.WriteTimeout, sc.WrappedTimeouts
			if need := 2*totalGap(pre.Chunks) + 50*time.Millisecond; sc.ReadTimeout < need {
				pre.Chunks = []Chunk{{N: len(pre.Reply)}}
			}
			pre.Then = sc
			sc.Reconnect = 1 + rc.Scen.Choose(2)
			out := RunC1(rc, pre)
			rc.Desc = sc.describe()
			rc.Desc["after_a_healthy_call_and_reconnect"] = sc.Reconnect
			rc.Nontrivial = true
			rc.Probe("fault_after_healthy_call_and_reconnect")
			if out.Panic != nil {
				rc.Violate("panic", fmt.Sprintf("client=%s|fault=%s|after_reconnect", sc.Kind, sc.Fault), "panic in %s: %s", out.Panic.Task, out.Panic.Value)
				return
			}
			if !out.Returned {
				return // the healthy call is C07's business
			}
			if len(out.Next) != 1 {
				rc.Violate("hang", fmt.Sprintf("client=%s|fault=%s|after_reconnect", sc.Kind, sc.Fault), "Do on the re-connected client did not return (hang=%v overstep=%v) after %v simulated", out.Hang, out.OverStep, rc.SimTime)
				return
			}
			checkC08(rc, sc, out.Next[0])
			return
		}
	}
	if plain := sc.Fault == FStall || sc.Fault == FEOF || sc.Fault == FIOErr || sc.Fault == FOversize; follow == nil && plain && !rc.Scen.Has("prefix") && rc.Scen.Chance(1, 150) {
		// the faulty exchange comes after a long history of healthy ones on the same client and connection (request
		// counters, statistics, buffers and whatever else a client accumulates must not change how a fault is reported)
		hist := genHistory(rc, sc, historyLen(rc.Scen), false)
		calls := append(append([]*C1(nil), hist...), sc)
		// an oversize reply that ends leaves the connection usable: then it is met after each exchange of the history,
		// at every position of whatever the client keeps between calls
		var faulty []int
		if sc.Fault == FOversize && !sc.Endless && rc.Scen.Chance(1, 2) {
			calls = nil
			for _, h := range hist {
				bad := *sc
				bad.Then = nil
				faulty = append(faulty, len(calls)+1)
				calls = append(calls, h, &bad)
			}
			calls = append(calls, sc)
		}
		first := RunC1Long(rc, chainCalls(calls))
		rc.Desc = sc.describe()
		rc.Desc["exchanges_before_on_this_client"] = len(calls) - 1
		rc.Nontrivial = true
		base := fmt.Sprintf("client=%s|fault=%s|after_long_history", sc.Kind, sc.Fault)
		if len(faulty) > 0 && first.Panic == nil {
			rc.Probe("oversize_reply_after_each_exchange_of_a_long_history")
			for _, i := range faulty {
				o := outcomeOf(first, i)
				if o == nil {
					rc.Violate("hang", base, "call %d of the run did not return (hang=%v overstep=%v)", i+1, first.Hang, first.OverStep)
					return
				}
				checkC08(rc, calls[i], o)
				if len(rc.Violations) > 0 {
					return
				}
			}
			hist = nil // the healthy exchanges in between are C07's business
			for i := 0; i < len(calls)-1; i += 2 {
				if o := outcomeOf(first, i); o == nil || o.Err != nil {
					return
				}
			}
			if main := outcomeOf(first, len(calls)-1); main != nil {
				checkC08(rc, sc, main)
			}
			return
		}
		if first.Panic != nil {
			rc.Violate("panic", base, "panic in %s: %s (after %d exchanges)", first.Panic.Task, first.Panic.Value, len(first.Next))
			return
		}
		failed, _ := historyTrouble(hist, first)
		rc.Fault("fault_after_long_history", failed == "")
		if failed != "" {
			return // healthy exchanges are C07's business
		}
		main := outcomeOf(first, len(hist))
		if main == nil {
			rc.Violate("hang", base, "Do did not return (hang=%v overstep=%v) after %d healthy exchanges", first.Hang, first.OverStep, len(hist))
			return
		}
		checkC08(rc, sc, main)
		return
	}
	if follow == nil && sc.Fault == FOversize && sc.Endless && rc.Scen.Chance(1, 2) {
		// the flood goes on, and the application tries again on the same client
		c := *sc
		c.Then = nil
		c.KeepStale = true
		c.Chunks = []Chunk{{N: len(c.Reply)}}
		follow = &c
		sc.Then = follow
	}
	out := RunC1(rc, sc)
	rc.Desc = sc.describe()
	rc.Nontrivial = true
	checkC08(rc, sc, out)
	if follow != nil && out.Returned && out.Panic == nil {
		rc.Probe("followup_call_after_timeout")
		base := fmt.Sprintf("client=%s|fault=%s|followup", sc.Kind, sc.Fault)
		if len(out.Next) == 0 || !out.Next[0].Returned {
			rc.Violate("hang", base, "the call after the faulted call on the same client did not return (hang=%v)", out.Hang)
			return
		}
		o := out.Next[0]
		bound := sc.ReadTimeout + 500*time.Microsecond + time.Millisecond
		if sc.Kind == KSerial {
			bound = sc.ReadTimeout + sc.PortTimeout + 30*time.Millisecond + time.Millisecond
		}
		if o.Elapsed > bound {
			rc.Violate("unbounded", base, "the follow-up call returned after %v simulated; bound %v", o.Elapsed, bound)
		}
		if follow.Fault == FStall {
			checkC08(rc, follow, o) // the same obligations as for the first call
		}
		if follow.Fault == FOversize && o.Err == nil {
			// same signature scheme as for a first call, so that what is accepted here falls under the same (known or unknown) defect
			rc.Violate("success_under_fault", fmt.Sprintf("client=%s|fault=%s|resp=%T%s", sc.Kind, follow.Fault, o.Resp, acceptedFrameClass(follow, o.Consumed)),
				"the call made while the flood was still going on reported success (%T); consumed %d bytes: %x", o.Resp, len(o.Consumed), trunc(o.Consumed, 40))
		}
	}
}

func checkC08(rc *RunCtx, sc *C1, out *C1Outcome) {
	base := fmt.Sprintf("client=%s|fault=%s|fc=%d", sc.Kind, sc.Fault, sc.Req.FC)
	fired := false
	defer func() {
		rc.Fault(sc.Fault.String(), fired)
		rc.Probe(fmt.Sprintf("%s|%s|fired=%v", sc.Kind, sc.Fault, fired))
	}()
	if out.Panic != nil {
		rc.Violate("panic", base, "panic in %s: %s\n%s", out.Panic.Task, out.Panic.Value, out.Panic.Stack)
		return
	}
	if !out.Returned {
		rc.Violate("hang", base, "Do did not return (hang=%v overstep=%v) after %v simulated", out.Hang, out.OverStep, rc.SimTime)
		return
	}
	// The documented bound: ReadTimeout is the total time reading the reply may take. The transport's writes never
	// block here, so the call may last the read timeout plus one blocking read (plus the serial client's 30 ms settle sleep).
	bound := sc.ReadTimeout + 500*time.Microsecond + time.Millisecond
	if sc.Kind == KSerial {
		bound = sc.ReadTimeout + sc.PortTimeout + 30*time.Millisecond + time.Millisecond
	}
	if out.Elapsed > bound {
		rc.Violate("unbounded", fmt.Sprintf("client=%s|fault=%s", sc.Kind, sc.Fault), "Do returned after %v simulated; read timeout %v, bound %v", out.Elapsed, sc.ReadTimeout, bound)
	}
	// reads that returned no data after the whole prefix had been handed over
	emptyAfterPrefix, sawIOErr, reads, writes := 0, false, 0, 0
	consumed := 0
	for _, r := range out.Rec {
		switch r.Kind {
		case "read":
			reads++
			consumed += r.N
			if r.N == 0 && consumed >= len(sc.Reply) {
				emptyAfterPrefix++
			}
			if r.Err != nil && errors.Is(r.Err, ErrSimIO) {
				sawIOErr = true
			}
		case "write":
			writes++
		}
	}
	var ce *modbus.ClientError
	isClientErr := errors.As(out.Err, &ce)
	// the read timeout may only be reported once it has elapsed
	if isClientErr && ce.Err != nil && ce.Err.Error() == "total read timeout exceeded" {
		due := sc.ReadTimeout
		if sc.Kind == KSerial {
			due += 30 * time.Millisecond
		}
		if out.Elapsed+time.Millisecond < due {
			rc.Violate("premature_timeout", fmt.Sprintf("client=%s|fault=%s", sc.Kind, sc.Fault), "Do reported 'total read timeout exceeded' after %v although the read timeout is %v", out.Elapsed, sc.ReadTimeout)
		}
	}
	errType := fmt.Sprintf("%T", out.Err)

	// cancellation observed before the call returned?
	cancelledDuring := false
	switch sc.Fault {
	case FCancelBefore:
		cancelledDuring = true
	case FCancelAfterWrite:
		cancelledDuring = writes > 0
	case FCancelAt, FCtxDeadline:
		// The cancel counts as observable only if the call went on for longer than one blocking-read
		// period after it: then the client has passed at least one loop-top check since. A call that
		// ends for a reason of its own at about the same instant owes nothing to the cancel.
		slack := 500*time.Microsecond + time.Microsecond
		if sc.Kind == KSerial {
			slack = sc.PortTimeout + 30*time.Millisecond + time.Microsecond
		}
		cancelledDuring = out.Elapsed > sc.CancelAt+slack
		if end := out.Start + out.Elapsed; !cancelledDuring && end >= sc.CancelAt {
			// The call ended at or shortly after the cancel instant. If nothing the transport delivered at or after that
			// instant can explain the return, and the read timeout was not due, only the cancel can have ended it.
			explained := false
			for _, r := range out.Rec {
				if r.Kind == "read" && r.At >= sc.CancelAt && (r.N > 0 || (r.Err != nil && !errors.Is(r.Err, os.ErrDeadlineExceeded))) {
					explained = true
				}
			}
			due := sc.ReadTimeout
			if sc.Kind == KSerial {
				due += 30 * time.Millisecond
			}
			if !explained && out.Elapsed+time.Millisecond < due {
				cancelledDuring = true
				rc.Probe("cancel_ended_the_call_at_once")
			}
		}
	}

	success := out.Err == nil
	if success && bytes.Equal(out.Consumed, sc.Full) && !isNilResponse(out.Resp) && bytes.Equal(out.Resp.Bytes(), sc.Full) &&
		(sc.Fault == FOversize || sc.Fault == FCancelAt || sc.Fault == FCtxDeadline) {
		// the client consumed exactly one complete valid reply and stopped: the fault was never observable
		rc.Probe("complete_reply_before_fault")
		return
	}
	if success && sc.Fault == FOversize && indistinguishableReply(sc, out.Consumed) {
		// The client consumed exactly one frame with the genuine reply's header, length (and CRC) and stopped at its end:
		// only payload data differs from what the device would have sent, and any payload is a legitimate read result.
		// Nothing a client could go by tells this frame from the reply; the flood behind it was never read.
		rc.Probe("indistinguishable_reply_before_fault")
		return
	}
	if success && sc.Fault == FFlushFail && out.Flushes == 0 && bytes.Equal(out.Consumed, sc.Full) {
		rc.Probe("complete_reply_without_flush")
		return
	}
	if success {
		related := acceptedFrameClass(sc, out.Consumed)
		rc.Violate("success_under_fault", fmt.Sprintf("client=%s|fault=%s|resp=%T%s", sc.Kind, sc.Fault, out.Resp, related), "Do reported success (%T) to a request of fc %d although the transport %s; consumed %d bytes: %x", out.Resp, sc.Req.FC, sc.Fault, len(out.Consumed), trunc(out.Consumed, 40))
		return
	}
	if !isNilResponse(out.Resp) {
		rc.Violate("response_with_error", base, "Do returned both a response and an error %q", out.Err)
	}

	switch sc.Fault {
	case FStall:
		fired = emptyAfterPrefix > 0
		if fired && !isClientErr {
			rc.Violate("misclassified", base+"|err="+errType, "stall after %d bytes observed (%d empty reads) but the error is %T %q, not the client error", len(sc.Reply), emptyAfterPrefix, out.Err, out.Err)
		}
	case FEOF:
		for _, r := range out.Rec {
			if r.Kind == "read" && r.Err != nil && r.Err.Error() == "EOF" {
				fired = true
			}
		}
	case FIOErr, FFlushFail:
		fired = sawIOErr || (sc.Fault == FFlushFail && out.Flushes > 0)
		if fired && (!isClientErr || !errors.Is(out.Err, ErrSimIO)) {
			rc.Violate("misclassified", base+"|err="+errType, "the transport returned an I/O error to the client but Do returned %T %q (ClientError=%v, wraps cause=%v)", out.Err, out.Err, isClientErr, errors.Is(out.Err, ErrSimIO))
		}
	case FOversize:
		limit := 260
		if sc.Kind == KSerial {
			limit = 256
		}
		fired = len(out.Consumed) > limit
		if fired && !isClientErr {
			rc.Violate("misclassified", base+"|err="+errType, "client consumed %d bytes (more than any frame) but Do returned %T %q", len(out.Consumed), out.Err, out.Err)
		}
	case FWriteDeadlineErr:
		fired = out.WDeadlineRejected > 0
		if fired && (!isClientErr || !errors.Is(out.Err, ErrSimIO)) {
			rc.Violate("misclassified", base+"|err="+errType, "the connection refused the write deadline (it is gone) but Do returned %T %q, not the client error wrapping the cause", out.Err, out.Err)
		}
		if reads > 0 {
			rc.Violate("read_after_failed_write", base, "client read from the transport although the request could not be written")
		}
	case FWriteErr, FShortWrite:
		fired = writes > 0
		if fired && (!isClientErr || !errors.Is(out.Err, ErrSimIO)) {
			rc.Violate("misclassified", base+"|err="+errType, "write was rejected but Do returned %T %q", out.Err, out.Err)
		}
		if reads > 0 {
			rc.Violate("read_after_failed_write", base, "client read from the transport after the write failed")
		}
	case FCancelBefore, FCancelAfterWrite, FCancelAt:
		fired = cancelledDuring
		if fired && !errors.Is(out.Err, context.Canceled) {
			rc.Violate("misclassified", base+"|err="+errType, "context was cancelled at %v (call took %v) but Do returned %T %q", sc.CancelAt, out.Elapsed, out.Err, out.Err)
		}
		if fired && sc.Fault == FCancelAt && out.Elapsed > sc.CancelAt+time.Second {
			rc.Violate("cancel_slow", base, "cancelled at %v, returned at %v", sc.CancelAt, out.Elapsed)
		}
	case FCtxDeadline:
		fired = cancelledDuring
		if fired && !errors.Is(out.Err, context.DeadlineExceeded) {
			rc.Violate("misclassified", base+"|err="+errType, "context deadline passed at %v (call took %v) but Do returned %T %q", sc.CancelAt, out.Elapsed, out.Err, out.Err)
		}
	case FNotConnected, FNilRequest, FDialFail:
		fired = true
		if sc.Fault == FDialFail && out.ConnErr == nil {
			rc.Violate("connect_succeeded", base, "Connect returned nil although dialling failed")
		}
		if out.Elapsed != 0 || reads+writes > 0 {
			rc.Violate("not_immediate", base, "call should fail immediately but took %v and made %d transport calls", out.Elapsed, reads+writes)
		}
	}
}

// isNilResponse: nil interface or a typed nil pointer (parsers return (*T)(nil), err).
func isNilResponse(r any) bool {
	if r == nil {
		return true
	}
	v := reflect.ValueOf(r)
	return v.Kind() == reflect.Pointer && v.IsNil()
}

// frameAnswersRequest: the bytes the client accepted start with the header a reply to this request must carry
// (Modbus TCP: the request's transaction id, protocol id 0, unit id, function code with or without the exception bit; RTU: unit id and function code).
func frameAnswersRequest(sc *C1, got []byte) bool {
	if sc.Kind == KTCP {
		return len(got) >= 8 && got[0] == byte(sc.TID>>8) && got[1] == byte(sc.TID) && got[2] == 0 && got[3] == 0 && got[6] == sc.Unit && got[7]&0x7f == sc.Req.FC
	}
	return len(got) >= 2 && got[0] == sc.Unit && got[1]&0x7f == sc.Req.FC
}

// indistinguishableReply: got has the length of the genuine reply to a read request and its whole header (for TCP:
// transaction id, protocol id, length, unit id, function code, byte count; for RTU: unit id, function code, byte count,
// and a CRC that matches), i.e. it differs from the genuine reply in read data only.
func indistinguishableReply(sc *C1, got []byte) bool {
	switch sc.Req.FC {
	case 1, 2, 3, 4, 23:
	default:
		return false
	}
	full := sc.Full
	if sc.IsExc || sc.Endless || len(got) != len(full) {
		return false // (in an endless flood the chunks run together: no read boundary is the transport's doing)
	}
	// ... and the transport itself ended a read exactly there (each scripted chunk is one read at most): a client that
	// asks for less than was on offer so as not to see what follows gets no credit
	boundary, sum := false, 0
	for _, c := range sc.Chunks {
		sum += c.N
		if sum == len(full) {
			boundary = true
		}
	}
	if !boundary {
		return false
	}
	if sc.Kind == KTCP {
		return len(full) >= 9 && bytes.Equal(got[:9], full[:9])
	}
	return len(full) >= 3 && bytes.Equal(got[:3], full[:3]) && RTUConsistent(got)
}

// acceptedFrameClass classifies what a client accepted as a reply although the transport was faulty (signature suffix).
func acceptedFrameClass(sc *C1, consumed []byte) string {
	switch {
	case len(consumed) == 0:
		return "|nothing_was_read"
	case !frameAnswersRequest(sc, consumed):
		// what was accepted does not even carry the request's transaction id / unit id / function code
		return "|frame_unrelated_to_request"
	case sc.Kind == KTCP && len(consumed) >= 6 && int(consumed[4])<<8|int(consumed[5]) != len(consumed)-6:
		// the accepted frame contradicts its own MBAP length field
		return "|mbap_length_ignored"
	}
	return ""
}
