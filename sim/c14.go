package sim

// Scenario family `shared` and C14 — one client instance shared by goroutines.

import (
	"bytes"
	"context"
	"encoding/binary"
	"errors"
	"fmt"
	"io"
	"net"
	"os"
	"sync"
	"sync/atomic"
	"time"

	modbus "github.com/aldas/go-modbus-client"
	"github.com/aldas/go-modbus-client/packet"
	"github.com/anishathalye/porcupine"
)

func init() {
	Register(&Property{ID: "C14", Run: runC14, Strata: strataC14})
}

// strata: client kind x number of callers x close/connect tasks: first draws of genC14.
func strataC14(tier string) [][]int32 {
	var out [][]int32
	for kind := 0; kind < 3; kind++ {
		for n := 0; n < 5; n++ {
			for cc := 0; cc < 4; cc++ {
				out = append(out, []int32{int32(kind), int32(n), int32(cc)})
			}
		}
	}
	return out
}

type shOp struct {
	Write bool
	SrvID bool // read-server-id (FC17): a reply of a length the request does not announce
	Addr  uint16
	Val   uint16 // unique per write
	Pause time.Duration
	Ctx   time.Duration // >0: the call is made with a context that expires after this long
}

type shScenario struct {
	Kind           ClientKind
	Callers        [][]shOp
	CloseAt        time.Duration // <0: no Close task
	ConnectAt      time.Duration // <0: no Connect task
	DevDelay       time.Duration // max device think time
	Race           bool
	Cancels        bool // some calls carry short context deadlines (stale replies follow: attribution oracles off, transport monitors on)
	FineGrained    bool
	Flusher        bool
	Hooks          bool          // logging hooks installed on the client; every hook call is a scheduling point
	Close2After    time.Duration // >=0: a second Close call that long after the first
	SlowOps        bool          // dialling and closing the port take (a little) time and are scheduling points
	TimeoutErrKind int           // how the transport reports a read timeout: 0 the bare sentinel, 1 *net.OpError, 2 a %w-annotated error
	UnitBase       int           // caller i uses unit id UnitBase+i (0: the first caller addresses unit 0)
	Epoch          bool          // three callers, more than 65536 calls in all
	ShortTimeouts  bool          // network client with ReadTimeout 20 ms / WriteTimeout 2 ms (the device answers within 3 ms)
}

type shRec struct {
	Caller         int
	Op             shOp
	Invoke, Return int // scheduler steps
	Err            error
	Vals           [4]uint16
	RespTID        int
	ReqTID         uint16
	EchoOK         bool
}

type regInput struct {
	Write bool
	Addr  uint16
	Val   uint16
}
type regOutput struct {
	Vals    [4]uint16
	Unknown bool // failed write: may or may not have happened
}

var regModel = porcupine.Model{
	Init: func() interface{} { return [4]uint16{} },
	Step: func(state, input, output interface{}) (bool, interface{}) {
		st := state.([4]uint16)
		in := input.(regInput)
		out := output.(regOutput)
		if in.Write {
			st[in.Addr] = in.Val
			return true, st
		}
		return out.Vals == st, st
	},
	Equal: func(a, b interface{}) bool { return a.([4]uint16) == b.([4]uint16) },
	DescribeOperation: func(input, output interface{}) string {
		in := input.(regInput)
		if in.Write {
			return fmt.Sprintf("write(%d,%d)", in.Addr, in.Val)
		}
		return fmt.Sprintf("read -> %v", output.(regOutput).Vals)
	},
}

func genC14(t *Tape) *shScenario {
	sc := &shScenario{}
	sc.Kind = ClientKind(t.Choose(3))
	n := 2 + t.Choose(5)
	cc := t.Choose(4) // bit0: Close task, bit1: Connect task
	val := uint16(1000 + t.Choose(1000))
	many := t.Chance(1, 150)
	epoch := t.Chance(1, 15000) || forceScenario == "epoch" // a few callers keep one client busy for more than 65536 calls
	if many {
		// a crowd of goroutines shares the client: most of them have to wait for their turn at the same time
		n = []int{33, 65, 66, 70, 129, 130}[t.Choose(6)] + t.Choose(3)
	}
	if epoch {
		many, n = false, 0
		for c := 0; c < 3; c++ {
			m := 21846 + t.Choose(40)
			ops := make([]shOp, m)
			for i := range ops {
				switch {
				case i%4096 == 7: // reads, and now and then a write (values stay unique) or a read of the server id
					val++
					ops[i] = shOp{Write: true, Addr: uint16(i % 4), Val: val}
				case i%5000 == 2500:
					ops[i] = shOp{SrvID: true}
				}
			}
			sc.Callers = append(sc.Callers, ops)
		}
	}
	for c := 0; c < n; c++ {
		m := 1 + t.Choose(5)
		if n*m > 24 {
			m = 24 / n
		}
		if many {
			m = 1
		}
		var ops []shOp
		for i := 0; i < m; i++ {
			op := shOp{Write: t.Choose(2) == 0}
			if many {
				op.Write = t.Choose(4) == 0
			}
			if t.Chance(1, 8) {
				op = shOp{SrvID: true}
			}
			if op.Write {
				op.Addr = uint16(t.Choose(4))
				val++
				op.Val = val
			}
			switch t.Pick(4, 2, 1) {
			case 1:
				op.Pause = time.Duration(t.Choose(2000)) * time.Microsecond
			case 2:
				op.Pause = time.Duration(t.Choose(40)) * time.Millisecond
			}
			ops = append(ops, op)
		}
		sc.Callers = append(sc.Callers, ops)
	}
	sc.CloseAt, sc.ConnectAt = -1, -1
	if cc&1 != 0 {
		sc.CloseAt = time.Duration(t.Choose(60000)) * time.Microsecond
	}
	if cc&2 != 0 && sc.Kind != KSerial {
		sc.ConnectAt = time.Duration(t.Choose(60000)) * time.Microsecond
	}
	sc.DevDelay = []time.Duration{0, 200 * time.Microsecond, 3 * time.Millisecond}[t.Choose(3)]
	sc.Flusher = sc.Kind == KSerial && t.Choose(2) == 1
	sc.FineGrained = t.Chance(1, 3) // other tasks may also run between SetReadDeadline and Read of one loop iteration
	if !epoch && t.Chance(1, 4) {
		sc.Cancels = true
		sc.DevDelay = 3 * time.Millisecond
		for c := range sc.Callers {
			for i := range sc.Callers[c] {
				if t.Chance(1, 3) {
					sc.Callers[c][i].Ctx = []time.Duration{100 * time.Microsecond, time.Millisecond, 4 * time.Millisecond}[t.Choose(3)] + 137*time.Nanosecond // (a runtime timer: kept off the instants at which the client itself wakes)
				}
			}
		}
	}
	sc.Hooks = t.Choose(3) == 0
	sc.Close2After = -1
	if sc.CloseAt >= 0 && t.Choose(3) == 0 {
		sc.Close2After = time.Duration(t.Choose(400)) * time.Microsecond
	}
	sc.SlowOps = t.Choose(2) == 0
	sc.TimeoutErrKind = t.Choose(3)
	if sc.Kind != KSerial && !epoch && t.Chance(1, 8) {
		sc.TimeoutErrKind = 3 // a non-blocking connection: no timeout errors at all, empty reads return (0, nil)
	}
	sc.UnitBase = 1 - t.Choose(4)/3 // 0 in a quarter of the runs
	sc.ShortTimeouts = sc.Kind != KSerial && !sc.Cancels && t.Choose(3) == 0
	if epoch {
		sc.Epoch, sc.CloseAt, sc.ConnectAt, sc.Close2After = true, -1, -1, -1
	}
	return sc
}

type shOutcome struct {
	Recs     []shRec
	Overlap  string
	Foreign  string
	Panics   []PanicRec
	Hang     bool
	OverStep bool
	WireBad  string
	IOBad    string
	HeldBad  string
	HookBad  string
	InitRegs [4]uint16
}

// runShared executes the scenario in the current bubble. free=true: race mode (no baton; goroutines run freely).
func runShared(rc *RunCtx, sc *shScenario) *shOutcome {
	s := NewSim(rc.Sched)
	s.Tracing = rc.Tracing
	s.Free = sc.Race
	if len(sc.Callers) > 24 {
		s.MaxSteps = 200000
	}
	if sc.Epoch {
		s.MaxSteps = 20000000
	} else if sc.TimeoutErrKind == 3 {
		s.MaxSteps = 600000 // every empty poll of a non-blocking connection is a step
	}
	out := &shOutcome{}
	defer s.Activate()()

	fr := sc.Kind.Framing()
	var devMu sync.Mutex
	regs := [4]uint16{}
	devSeq := 0
	// what is outstanding: request written, call not yet returned
	var mon sync.Mutex
	inflight := map[int]bool{}
	active := 0                 // callers currently inside Do
	byFrame := map[string]int{} // request bytes -> caller

	startDevice := func(dev *Conn) {
		devMu.Lock()
		devSeq++
		name := fmt.Sprintf("dev%d", devSeq)
		devMu.Unlock()
		s.Go(name, true, func(tk *Task) {
			var buf []byte
			tmp := make([]byte, 600)
			for {
				n, err := dev.Read(tmp)
				buf = append(buf, tmp[:n]...)
				for {
					var frame, pdu []byte
					var tid uint16
					var unit byte
					if fr == TCP {
						if len(buf) < 7 {
							break
						}
						l := int(binary.BigEndian.Uint16(buf[4:]))
						if len(buf) < 6+l {
							break
						}
						frame, buf = buf[:6+l], buf[6+l:]
						var ok bool
						tid, unit, pdu, ok = UnframeTCP(frame)
						if !ok {
							out.WireBad = fmt.Sprintf("device received bytes that are not a request frame: %x", trunc(frame, 24))
							continue
						}
					} else {
						// all requests of this workload are 8-byte RTU frames except FC16 (9+2n)
						if len(buf) < 2 {
							break
						}
						l := 8
						if buf[1] == 17 {
							l = 4
						} else if len(buf) < 8 {
							break
						}
						if buf[1] == 16 {
							l = 9 + int(buf[6])
						}
						if len(buf) < l {
							break
						}
						frame, buf = buf[:l], buf[l:]
						if !RTUConsistent(frame) {
							out.WireBad = fmt.Sprintf("device received bytes that are not a request frame: %x", trunc(frame, 24))
							continue
						}
						unit, pdu = frame[0], frame[1:len(frame)-2]
					}
					if sc.DevDelay > 0 {
						d := time.Duration(tk.Choose(int(sc.DevDelay/time.Microsecond)+1)) * time.Microsecond
						if d > 0 && tk.Sleep("think", d) == Drained {
							return
						}
					}
					// execute against the 4-register file
					var rp []byte
					devMu.Lock()
					switch pdu[0] {
					case 3:
						a, q := int(binary.BigEndian.Uint16(pdu[1:])), int(binary.BigEndian.Uint16(pdu[3:]))
						rp = []byte{3, byte(2 * q)}
						for i := 0; i < q; i++ {
							rp = binary.BigEndian.AppendUint16(rp, regs[(a+i)%4])
						}
					case 17:
						rp = append([]byte{17, byte(len(c14ServerID))}, c14ServerID...)
						rp = append(rp, 0xFF)
					case 6:
						a := int(binary.BigEndian.Uint16(pdu[1:]))
						regs[a%4] = binary.BigEndian.Uint16(pdu[3:])
						rp = append([]byte(nil), pdu...)
					default:
						rp = []byte{pdu[0] | 0x80, 1}
					}
					devMu.Unlock()
					var reply []byte
					if fr == TCP {
						reply = FrameTCP(tid, unit, rp)
					} else {
						reply = FrameRTU(unit, rp)
					}
					if _, err := dev.Write(reply); err != nil {
						return
					}
				}
				if err != nil {
					return
				}
			}
		})
	}

	var pipeSeq atomic.Int32
	newPipe := func() *Conn {
		k := pipeSeq.Add(1)
		cl, dev := NewPipe(s, fmt.Sprintf("p%d", k))
		cl.Name = fmt.Sprintf("p%d.cli", k)
		cl.YieldSetDeadline = sc.FineGrained
		switch sc.TimeoutErrKind {
		case 1:
			cl.TimeoutErr = &net.OpError{Op: "read", Net: "sim", Err: os.ErrDeadlineExceeded}
		case 2:
			cl.TimeoutErr = fmt.Errorf("conn wrapper: %w", os.ErrDeadlineExceeded) // an annotating wrapper: no Timeout method of its own
		case 3:
			cl.ZeroNilPoll = 20 * time.Microsecond
		}
		dev.Name = fmt.Sprintf("p%d.dev", k)
		if !sc.Race {
			reading := 0
			cl.OnReadBegin = func(c *Conn) {
				mon.Lock()
				defer mon.Unlock()
				reading++
				if reading > 1 && out.IOBad == "" {
					out.IOBad = "two goroutines were reading from the client's transport at the same time"
				}
				if active == 0 && out.IOBad == "" {
					out.IOBad = "the client's transport was read while no request call was in progress"
				}
			}
			cl.OnReadEnd = func(c *Conn) {
				mon.Lock()
				reading--
				mon.Unlock()
			}
			cl.OnWrite = func(c *Conn, data []byte) {
				mon.Lock()
				defer mon.Unlock()
				who, ok := byFrame[string(data)]
				if !ok {
					if out.WireBad == "" {
						out.WireBad = fmt.Sprintf("bytes written to the transport are no caller's request: %x", trunc(data, 24))
					}
					return
				}
				for other := range inflight {
					if other != who && out.Overlap == "" {
						out.Overlap = fmt.Sprintf("caller %d's request was written while caller %d's exchange was still in progress", who, other)
					}
				}
				inflight[who] = true
			}
		}
		startDevice(dev)
		return cl
	}

	var doer interface {
		Do(context.Context, packet.Request) (packet.Response, error)
	}
	var closer func() error
	var connect func() error
	var hooks *shHooks
	if sc.Hooks {
		hooks = &shHooks{s: s, race: sc.Race, owner: -1, unitBase: sc.UnitBase, cancels: sc.Cancels, tcp: fr == TCP, mon: &mon, byFrame: byFrame, bad: &out.HookBad}
	}
	switch sc.Kind {
	case KTCP, KRTU:
		conf := modbus.ClientConfig{ReadTimeout: 200 * time.Millisecond, WriteTimeout: time.Second,
			DialContextFunc: func(context.Context, string) (net.Conn, error) {
				if sc.SlowOps {
					takeTime(s, "dial", nil, 300*time.Microsecond)
				}
				return newPipe(), nil
			}}
		if sc.ShortTimeouts {
			conf.ReadTimeout, conf.WriteTimeout = 20*time.Millisecond, 2*time.Millisecond
		}
		if hooks != nil {
			conf.Hooks = hooks
		}
		var c *modbus.Client
		if sc.Kind == KTCP {
			c = modbus.NewTCPClientWithConfig(conf)
		} else {
			c = modbus.NewRTUClientWithConfig(conf)
		}
		doer, closer = c, c.Close
		connect = func() error { return c.Connect(context.Background(), "sim:502") }
	case KSerial:
		cl := newPipe()
		cl.SerialMode = true
		cl.PortTimeout = 2 * time.Millisecond
		cl.MinReadCost = 500 * time.Microsecond
		// a serial port is not safe for concurrent use: nothing but the client keeps calls on it one at a time
		pm := &portMon{note: func(what string) {
			mon.Lock()
			if out.IOBad == "" && !sc.Race {
				out.IOBad = what
			}
			mon.Unlock()
		}}
		var port io.ReadWriteCloser = slowClosePlainPort{plainPort{cl}, sc.SlowOps, pm}
		if sc.Flusher {
			port = discardingFlushPort{cl, sc.SlowOps, pm} // a port whose Flush really discards what has not been read yet
		}
		opts := []modbus.SerialClientOptionFunc{modbus.WithSerialReadTimeout(200 * time.Millisecond)}
		if hooks != nil {
			opts = append(opts, modbus.WithSerialHooks(hooks))
		}
		c := modbus.NewSerialClient(port, opts...)
		doer, closer = c, c.Close
		connect = func() error { return nil }
	}

	var connected atomic.Bool
	s.Go("connector", true, func(tk *Task) {
		connect()
		connected.Store(true)
	})
	nrecs := 0
	for _, ops := range sc.Callers {
		nrecs += len(ops)
	}
	out.Recs = make([]shRec, 0, nrecs)
	var recMu sync.Mutex
	for ci, ops := range sc.Callers {
		ci, ops := ci, ops
		s.Go(fmt.Sprintf("caller%d", ci), false, func(tk *Task) {
			if tk.WaitUntil("await-connect", func() bool { return connected.Load() }, time.Time{}) == Drained {
				return
			}
			// responses are kept by the caller and looked at again later, while other callers keep using the client
			var held []packet.Response
			var heldBytes [][]byte
			defer func() {
				for i, r := range held {
					b := r.Bytes() // in race mode this read is the point: a response must not alias memory the client reuses
					if !sc.Race && !bytes.Equal(b, heldBytes[i]) {
						recMu.Lock()
						if out.HeldBad == "" {
							out.HeldBad = fmt.Sprintf("a response handed to caller %d re-encoded to %x when it was returned and to %x after later calls on the shared client", ci, trunc(heldBytes[i], 16), trunc(b, 16))
						}
						recMu.Unlock()
					}
				}
			}()
			for oi, op := range ops {
				if op.Pause > 0 && tk.Sleep("pause", op.Pause) == Drained {
					return
				}
				tid := uint16(1 + ci*64 + oi)
				unit := byte(sc.UnitBase + ci) // makes every request frame unique even over RTU
				var req packet.Request
				var err error
				if op.SrvID {
					req, err = BuildLibRequest(Req{FC: 17}, unit, tid, fr)
				} else if op.Write {
					req, err = BuildLibRequest(Req{FC: 6, Addr: op.Addr, Qty: op.Val}, unit, tid, fr)
				} else {
					req, err = BuildLibRequest(Req{FC: 3, Addr: 0, Qty: 4}, unit, tid, fr)
				}
				if err != nil {
					panic(err)
				}
				if !op.Write && fr == RTU {
					// read requests of one caller are byte-identical over RTU; that is fine for the wire monitor
				}
				if !sc.Race {
					mon.Lock()
					byFrame[string(req.Bytes())] = ci
					mon.Unlock()
				}
				rec := shRec{Caller: ci, Op: op, ReqTID: tid, RespTID: -1}
				rec.Invoke = s.StepNow()
				ctx, cancel := context.Background(), context.CancelFunc(func() {})
				if op.Ctx > 0 {
					ctx, cancel = context.WithTimeout(ctx, op.Ctx)
				}
				if !sc.Race {
					mon.Lock()
					active++
					mon.Unlock()
				}
				resp, err := doer.Do(ctx, req)
				cancel()
				if !sc.Race {
					mon.Lock()
					active--
					mon.Unlock()
				}
				rec.Return = s.StepNow()
				if err == nil && !isNilResponse(resp) {
					held = append(held, resp)
					if !sc.Race {
						heldBytes = append(heldBytes, append([]byte(nil), resp.Bytes()...))
					}
				}
				if sc.Race {
					continue // no functional oracle (and no shared harness state) in race mode
				}
				mon.Lock()
				delete(inflight, ci)
				mon.Unlock()
				rec.Err = err
				if err == nil && !isNilResponse(resp) {
					b := resp.Bytes()
					var pdu []byte
					if fr == TCP {
						var rt uint16
						var ru byte
						rt, ru, pdu, _ = UnframeTCP(b)
						rec.RespTID = int(rt)
						if rt != tid || ru != unit {
							recMu.Lock()
							if out.Foreign == "" {
								out.Foreign = fmt.Sprintf("caller %d sent tid %d unit %d and was handed the reply %x (tid %d unit %d)", ci, tid, unit, trunc(b, 16), rt, ru)
							}
							recMu.Unlock()
						}
					} else if len(b) >= 4 {
						pdu = b[1 : len(b)-2]
						if b[0] != unit {
							recMu.Lock()
							if out.Foreign == "" {
								out.Foreign = fmt.Sprintf("caller %d addressed unit %d and was handed the reply %x (unit %d)", ci, unit, trunc(b, 16), b[0])
							}
							recMu.Unlock()
						}
					}
					if op.SrvID {
						want := append([]byte{17, byte(len(c14ServerID))}, c14ServerID...)
						want = append(want, 0xFF)
						if !bytes.Equal(pdu, want) {
							recMu.Lock()
							if out.Foreign == "" {
								out.Foreign = fmt.Sprintf("caller %d asked for the server id and was handed the reply %x", ci, trunc(b, 24))
							}
							recMu.Unlock()
							rec.Err = errors.New("foreign reply")
						}
					} else if op.Write {
						rec.EchoOK = len(pdu) == 5 && pdu[0] == 6 && binary.BigEndian.Uint16(pdu[1:]) == op.Addr && binary.BigEndian.Uint16(pdu[3:]) == op.Val
						if !rec.EchoOK {
							recMu.Lock()
							if out.Foreign == "" {
								out.Foreign = fmt.Sprintf("caller %d wrote (%d,%d) and was handed the reply %x", ci, op.Addr, op.Val, trunc(b, 16))
							}
							recMu.Unlock()
						}
					} else if len(pdu) == 10 && pdu[0] == 3 {
						for i := 0; i < 4; i++ {
							rec.Vals[i] = binary.BigEndian.Uint16(pdu[2+2*i:])
						}
					} else {
						recMu.Lock()
						if out.Foreign == "" {
							out.Foreign = fmt.Sprintf("caller %d read 4 registers and was handed the reply %x", ci, trunc(b, 16))
						}
						recMu.Unlock()
						rec.Err = errors.New("foreign reply")
					}
				}
				recMu.Lock()
				out.Recs = append(out.Recs, rec)
				recMu.Unlock()
			}
		})
	}
	if sc.CloseAt >= 0 {
		s.Go("closer", false, func(tk *Task) {
			if tk.Sleep("close-timer", sc.CloseAt) == Drained {
				return
			}
			closer()
		})
	}
	if sc.CloseAt >= 0 && sc.Close2After >= 0 {
		s.Go("closer2", false, func(tk *Task) {
			if tk.Sleep("close-timer", sc.CloseAt+sc.Close2After) == Drained {
				return
			}
			closer()
		})
	}
	if sc.ConnectAt >= 0 {
		s.Go("reconnector", false, func(tk *Task) {
			if tk.Sleep("connect-timer", sc.ConnectAt) == Drained {
				return
			}
			connect()
		})
	}
	s.Run()
	out.Hang, out.OverStep = s.Hang, s.OverStep
	s.Drain()
	out.Panics = s.Panics
	rc.finishFrom(s)
	return out
}

func runC14(rc *RunCtx) {
	sc := genC14(rc.Scen)
	sc.Race = rc.Race
	out := runShared(rc, sc)
	nops := 0
	for _, c := range sc.Callers {
		nops += len(c)
	}
	rc.Nontrivial = true
	rc.Desc = map[string]any{"client": sc.Kind.String(), "callers": len(sc.Callers), "calls": nops, "close_at": sc.CloseAt.String(), "connect_at": sc.ConnectAt.String(), "device_think_max": sc.DevDelay.String()}
	rc.Probe(fmt.Sprintf("%s|callers=%d|close=%v|connect=%v", sc.Kind, len(sc.Callers), sc.CloseAt >= 0, sc.ConnectAt >= 0))
	if sc.Epoch {
		rc.Probe("three_callers_more_than_65536_calls")
	}
	if !rc.Race {
		nfail, nctx := 0, 0
		for _, r := range out.Recs {
			if r.Err != nil {
				nfail++
				if errors.Is(r.Err, context.DeadlineExceeded) || errors.Is(r.Err, context.Canceled) {
					nctx++
				}
			}
		}
		if sc.CloseAt >= 0 {
			rc.Fault("close_while_callers_active", nfail > 0) // fired: some call met the closed client
		}
		if sc.ConnectAt >= 0 {
			rc.Fault("connect_while_callers_active", true)
		}
		if sc.Cancels {
			rc.Fault("context_expiry_inside_an_exchange", nctx > 0)
		}
		if sc.Flusher {
			rc.Fault("port_flush_discards_buffered_bytes", true)
		}
		if sc.DevDelay > 0 {
			rc.Fault("device_think_time", true)
		}
	}
	base := fmt.Sprintf("client=%s", sc.Kind)
	for _, p := range out.Panics {
		rc.Violate("panic", base+"|task="+taskKind(p.Task), "panic in %s: %s\n%s", p.Task, p.Value, firstRepoFrames(p.Stack))
	}
	if rc.Race {
		return // no functional oracle in race mode (DESIGN.md §2.6)
	}
	if out.Hang || out.OverStep {
		rc.Violate("hang", base, "the run did not finish: hang=%v overstep=%v", out.Hang, out.OverStep)
		return
	}
	if out.WireBad != "" {
		rc.Violate("interleaved_frames", base, "%s", out.WireBad)
	}
	if out.Overlap != "" {
		rc.Violate("interleaved_exchange", base, "%s", out.Overlap)
	}
	if out.IOBad != "" {
		rc.Violate("io_outside_call", base, "%s", out.IOBad)
	}
	if out.HeldBad != "" {
		rc.Violate("earlier_response_changed", base, "%s", out.HeldBad)
	}
	if out.HookBad != "" {
		rc.Violate("hooks_interleaved", base, "%s", out.HookBad)
	}
	if sc.Cancels {
		rc.Probe("runs_with_expiring_contexts")
		return // replies to abandoned requests arrive later: attribution and linearizability are not defined for these runs
	}
	if out.Foreign != "" {
		rc.Violate("foreign_reply", base, "%s", out.Foreign)
	}
	if sc.CloseAt < 0 && sc.ConnectAt < 0 {
		// nothing closes or replaces the connection and the device answers everything: every call must get its reply
		for _, r := range out.Recs {
			if r.Err != nil {
				rc.Violate("call_failed_on_healthy_transport", base, "caller %d's call failed with %q although the transport was healthy and nobody closed the client", r.Caller, r.Err)
				break
			}
		}
	}
	// linearizability of the recorded history against a 4-register file (checked outside the bubble: porcupine uses real timers)
	recs := out.Recs
	rc.PostBubble = append(rc.PostBubble, func() {
		var ops []porcupine.Operation
		maxRet := 0
		for _, r := range recs {
			if r.Return > maxRet {
				maxRet = r.Return
			}
		}
		failed := 0
		for _, r := range recs {
			in := regInput{Write: r.Op.Write, Addr: r.Op.Addr, Val: r.Op.Val}
			if r.Op.SrvID {
				if r.Err != nil {
					failed++
				}
				continue // not an operation on the register file
			}
			if r.Err != nil {
				failed++
				if !r.Op.Write {
					continue // a failed read constrains nothing
				}
				// a failed write may or may not have taken effect, at any time after its invocation
				ops = append(ops, porcupine.Operation{ClientId: r.Caller, Input: in, Call: int64(r.Invoke), Output: regOutput{Unknown: true}, Return: int64(maxRet + 1000)})
				continue
			}
			ops = append(ops, porcupine.Operation{ClientId: r.Caller, Input: in, Call: int64(r.Invoke), Output: regOutput{Vals: r.Vals}, Return: int64(r.Return)})
		}
		if failed > 0 {
			rc.Probe("history_with_failed_calls")
		}
		if len(sc.Callers) > 24 || sc.Epoch {
			// a crowd whose calls all overlap: the search would not end in useful time, the transport monitors carry the check
			rc.Probe("crowd_history_not_searched")
			return
		}
		switch porcupine.CheckOperationsTimeout(regModel, ops, 8*time.Second) {
		case porcupine.Illegal:
			rc.Violate("non_linearizable", base, "history of %d operations by %d callers is not linearizable w.r.t. a register file: %s", len(ops), len(sc.Callers), describeHistory(recs))
		case porcupine.Unknown:
			rc.Probe("linearizability_inconclusive")
		default:
			rc.Probe("linearizable_histories")
		}
	})
}

func taskKind(name string) string {
	for i, c := range name {
		if c >= '0' && c <= '9' {
			return name[:i]
		}
	}
	return name
}

func describeHistory(recs []shRec) string {
	s := ""
	for i, r := range recs {
		if i >= 16 {
			s += " ..."
			break
		}
		if r.Op.Write {
			s += fmt.Sprintf(" c%d[%d,%d]w(%d,%d)err=%v", r.Caller, r.Invoke, r.Return, r.Op.Addr, r.Op.Val, r.Err != nil)
		} else {
			s += fmt.Sprintf(" c%d[%d,%d]r=%v err=%v", r.Caller, r.Invoke, r.Return, r.Vals, r.Err != nil)
		}
	}
	return s
}

// discardingFlushPort is a serial port with Flusher whose Flush drops the bytes that have arrived but were not read.
type discardingFlushPort struct {
	c    *Conn
	slow bool
	mon  *portMon
}

// slowClosePlainPort: a port without Flush whose Close takes a moment.
type slowClosePlainPort struct {
	plainPort
	slow bool
	mon  *portMon
}

// portMon notes when two goroutines are inside the port's Close at the same time.
type portMon struct {
	mu      sync.Mutex
	closing int
	note    func(string)
}

func (m *portMon) enter() {
	if m == nil {
		return
	}
	m.mu.Lock()
	m.closing++
	n := m.closing
	m.mu.Unlock()
	if n > 1 {
		m.note("two goroutines were inside the serial port's Close at the same time")
	}
}

func (m *portMon) leave() {
	if m == nil {
		return
	}
	m.mu.Lock()
	m.closing--
	m.mu.Unlock()
}

func (p slowClosePlainPort) Close() error {
	p.mon.enter()
	defer p.mon.leave()
	if p.slow {
		takeTime(p.c.sim, "port-close:"+p.c.Name, p.c.locker(), 200*time.Microsecond)
	}
	return p.c.Close()
}

// takeTime parks the calling goroutine for d of simulated time (a scheduling point).
func takeTime(s *Sim, id string, lk sync.Locker, d time.Duration) {
	until := time.Now().Add(d)
	s.ParkL(id, id, lk, func(now time.Time) (bool, Reason, time.Time) {
		if !now.Before(until) {
			return true, Ready, time.Time{}
		}
		return false, Ready, until
	})
}

func (p discardingFlushPort) Read(b []byte) (int, error)  { return p.c.Read(b) }
func (p discardingFlushPort) Write(b []byte) (int, error) { return p.c.Write(b) }
func (p discardingFlushPort) Close() error {
	p.mon.enter()
	defer p.mon.leave()
	if p.slow {
		takeTime(p.c.sim, "port-close:"+p.c.Name, p.c.locker(), 200*time.Microsecond)
	}
	return p.c.Close()
}
func (p discardingFlushPort) Flush() error {
	// a transport operation like any other: other tasks may be scheduled before it takes effect
	if p.c.sim.ParkL("fl:"+p.c.Name, "flush", p.c.locker(), always) == Drained {
		return nil
	}
	p.c.lock()
	now := time.Now()
	kept := p.c.in.segs[:0]
	for _, sg := range p.c.in.segs {
		if sg.at.IsZero() || sg.at.After(now) {
			kept = append(kept, sg) // still in flight: a flush cannot reach it
		}
	}
	p.c.in.segs = kept
	p.c.sim.logLocked("flush %s", p.c.Name)
	p.c.unlock()
	return nil
}

// shHooks are logging hooks on the shared client. Every call is a scheduling point (a hook may block, e.g. on a log
// sink), and the hooks of one request call must not be interleaved with those of another: the calls are carried out one
// at a time. In race mode the hooks record without any synchronisation of their own, like a naive logger.
type shHooks struct {
	s        *Sim
	race     bool
	cancels  bool
	tcp      bool
	mon      *sync.Mutex
	byFrame  map[string]int
	bad      *string
	owner    int // caller whose request was written last
	unitBase int
	events   int
}

func (h *shHooks) yield(what string) {
	if !h.race {
		h.s.Park("hook", what, always)
	}
}

func (h *shHooks) BeforeWrite(toWrite []byte) {
	h.yield("before-write")
	h.events++
	if h.race {
		return
	}
	h.mon.Lock()
	defer h.mon.Unlock()
	if who, ok := h.byFrame[string(toWrite)]; ok {
		h.owner = who
	}
}

func (h *shHooks) AfterEachRead(received []byte, n int, err error) {
	h.yield("after-read")
	h.events++
}

func (h *shHooks) BeforeParse(received []byte) {
	h.yield("before-parse")
	h.events++
	if h.race || h.cancels {
		return // with abandoned requests a late reply may legitimately reach a later call's parser
	}
	h.mon.Lock()
	defer h.mon.Unlock()
	unitAt := 0
	if h.tcp {
		unitAt = 6
	}
	if len(received) <= unitAt {
		return
	}
	who := int(received[unitAt]) - h.unitBase // callers use unit id unitBase+index
	if h.owner >= 0 && who != h.owner && *h.bad == "" {
		*h.bad = fmt.Sprintf("the before-parse hook was called with caller %d's reply after the before-write hook had already been called for caller %d's request: the hooks of two request calls are interleaved", who, h.owner)
	}
}

// c14ServerID: a vendor string of ordinary length (read-server-id replies are as long as the device likes).
var c14ServerID = []byte("ACME PLC-2000 fw 1.4.2")
