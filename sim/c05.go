package sim

// C05 — fields extracted via the request builder equal the device's memory contents.

import (
	"context"
	"encoding/binary"
	"errors"
	"fmt"
	"time"

	modbus "github.com/aldas/go-modbus-client"
	"github.com/aldas/go-modbus-client/packet"
)

func init() {
	Register(&Property{ID: "C05", Run: runC05, Strata: strataC05})
}

// strata: (fc3/fc4) x (tcp/rtu) x (strict/lenient) x base class: first draws of runC05.
func strataC05(tier string) [][]int32 {
	var out [][]int32
	for fn := 0; fn < 2; fn++ {
		for fr := 0; fr < 2; fr++ {
			for len_ := 0; len_ < 2; len_++ {
				for base := 0; base < 5; base++ {
					out = append(out, []int32{int32(fn), int32(fr), int32(len_), int32(base)})
				}
			}
		}
	}
	return out
}

type c05Result struct {
	req    modbus.BuilderRequest
	resp   packet.Response
	doErr  error
	values []modbus.FieldValue
	exErr  error
	short  int // registers actually returned (0 = full)
}

func runC05(rc *RunCtx) {
	t := rc.Scen
	holding := t.Choose(2) == 0
	fr := Framing(t.Choose(2))
	lenient := t.Choose(2) == 1
	baseClass := t.Choose(5)
	// server addresses and unit ids include pairs that collide under careless concatenation ("plc1"+"11" == "plc11"+"1")
	pool := [][]string{{"plc-a:502", "plc-b:502", "tcp://plc-c:1502"}, {"plc1", "plc11", "plc111"}, {"10.0.0.7:50", "10.0.0.7:502", "10.0.0.7:5020"}}[t.Pick(3, 1, 1)]
	servers := pool[:1+t.Pick(3, 2, 1)]
	unitPool := []uint8{1, 2, 3, 11, 0, 20, 21, 255, 12, 112}
	nunits := 1 + t.Pick(3, 2, 1, 1)
	if rot := t.Pick(2, 1, 1, 1); rot > 0 {
		// start the pool elsewhere: unit ids 0 (a unit id like any other), 255 and the colliding pairs get their turn
		k := []int{0, 4, 7, 3}[rot]
		unitPool = append(append([]uint8(nil), unitPool[k:]...), unitPool[:k]...)
	}
	nf := 1 + t.Pick(2, 3, 3, 2)*4 + t.Choose(4)
	if nf > 40 {
		nf = 40
	}
	bases := []int{}
	for i := 0; i < 1+t.Choose(3); i++ {
		switch (baseClass + i) % 5 {
		case 0:
			bases = append(bases, 0)
		case 1:
			bases = append(bases, 100+t.Choose(60)) // around the 125-register limit
		case 2:
			bases = append(bases, 65535-t.Choose(40))
		case 3:
			bases = append(bases, t.Choose(65536))
		case 4:
			bases = append(bases, 65536-125-t.Choose(10))
		}
	}
	var fields modbus.Fields
	want := map[modbus.Field]int{} // requested register fields (multiset)
	for i := 0; i < nf; i++ {
		base := bases[t.Choose(len(bases))]
		var f modbus.Field
		if t.Chance(1, 10) {
			f = modbus.Field{Name: fmt.Sprintf("coil%d", i), Type: modbus.FieldTypeCoil, Address: uint16(t.Choose(65536))}
		} else if len(fields) > 0 && t.Chance(1, 8) {
			f = fields[t.Choose(len(fields))] // exact duplicate
		} else {
			f = genRegField(t, base, i)
		}
		if f.ServerAddress == "" {
			f.ServerAddress = servers[t.Choose(len(servers))]
			f.UnitID = unitPool[t.Choose(nunits)]
		}
		fields = append(fields, f)
		if f.Type != modbus.FieldTypeCoil {
			want[f]++
		}
	}
	if t.Chance(1, 1000) && len(fields) > 0 {
		// a very long field list (a generated point database: every bit of every status word under its own name): the
		// definitions drawn above, over and over under new names, past 65536 entries
		total := 64000 + t.Choose(5000)
		tmpl := len(fields)
		for i := tmpl; i < total; i++ {
			f := fields[i%tmpl]
			f.Name = fmt.Sprintf("%s#%d", f.Name, i)
			fields = append(fields, f)
			if f.Type != modbus.FieldTypeCoil {
				want[f]++
			}
		}
		rc.Probe("field_list_past_65536_entries")
	}
	shortRate := t.Pick(3, 1)
	devSeed := uint64(t.Choose(1 << 30))
	asciiEvery := []int{0, 2, 5}[t.Choose(3)]
	specialEvery := []int{0, 0, 3, 1}[t.Choose(4)] // registers holding all-zeros/all-ones/sign/NaN/Inf/CRLF/high-bit values

	// fields may be added in two stages with requests built in between (a builder is a reusable, growing description)
	// the builder's own defaults (server, unit) are for fields made through its helper methods; complete definitions
	// added with AddAll carry their own and must keep them (unit id 0 is a definition like any other)
	b := modbus.NewRequestBuilder([]string{"", "default-plc:502", "plc1"}[t.Choose(3)], []uint8{0, 9, 255, 1}[t.Choose(4)])
	if stage := t.Choose(len(fields) + 1); stage > 0 && stage < len(fields) && t.Chance(1, 3) {
		b.AddAll(fields[:stage])
		if holding {
			b.ReadHoldingRegistersTCP()
			b.ReadHoldingRegistersRTU()
		} else {
			b.ReadInputRegistersTCP()
			b.ReadInputRegistersRTU()
		}
		b.AddAll(fields[stage:])
	} else {
		b.AddAll(fields)
	}
	var reqs []modbus.BuilderRequest
	var berr error
	build := func() ([]modbus.BuilderRequest, error) {
		switch {
		case holding && fr == TCP:
			return b.ReadHoldingRegistersTCP()
		case holding:
			return b.ReadHoldingRegistersRTU()
		case fr == TCP:
			return b.ReadInputRegistersTCP()
		default:
			return b.ReadInputRegistersRTU()
		}
	}
	// a builder is a reusable description: asking it for other kinds of requests first, or twice, must change nothing
	switch t.Pick(3, 1, 1, 1) {
	case 1:
		b.ReadCoilsTCP()
	case 2:
		build()
	case 3:
		b.ReadDiscreteInputsRTU()
		b.ReadInputRegistersTCP()
	}
	reqs, berr = build()
	fn := "fc4"
	tab := TabInput
	if holding {
		fn, tab = "fc3", TabHolding
	}
	sigBase := fmt.Sprintf("%s|%s", fn, fr)
	rc.Desc = map[string]any{"function": fn, "framing": fr.String(), "lenient": lenient, "servers": len(servers), "units": nunits, "fields": describeFields(fields[:min(len(fields), 64)]), "field_count": len(fields), "requests": len(reqs)}
	rc.Nontrivial = len(want) > 1
	for _, f := range fields[:min(len(fields), 64)] {
		rc.Shape("%d/%d/%d/%s/%d", f.Type, f.ByteOrder, bucket(int(f.Length)), f.ServerAddress, f.UnitID)
	}
	rc.Shape("%s|%v|reqs=%d|short=%d|bases=%v", sigBase, lenient, len(reqs), shortRate, baseClass)
	rc.Probe(fmt.Sprintf("%s|lenient=%v|base=%d", sigBase, lenient, baseClass))
	if berr != nil {
		rc.Violate("builder_error", sigBase, "builder refused valid fields: %v", berr)
		return
	}
	sortBuilderRequests(reqs)
	// pin transaction ids (constructors draw them from the global math/rand)
	for i := range reqs {
		switch q := reqs[i].Request.(type) {
		case *packet.ReadHoldingRegistersRequestTCP:
			q.TransactionID = uint16(1000 + i)
		case *packet.ReadInputRegistersRequestTCP:
			q.TransactionID = uint16(1000 + i)
		}
	}

	s := NewSim(rc.Sched)
	s.Tracing = rc.Tracing
	defer s.Activate()()
	dn := NewDevNet(s, devSeed)
	dn.ASCIIEvery = asciiEvery
	dn.SpecialEvery = specialEvery
	shorts := map[string]int{}
	if shortRate == 1 {
		dn.ShortAnswer = func(server string, unit byte, pdu []byte) int {
			q := int(binary.BigEndian.Uint16(pdu[3:]))
			if q < 2 {
				return 0
			}
			r := 1 + s.Tape.Choose(q-1)
			shorts[fmt.Sprintf("%s/%d/%d", server, unit, binary.BigEndian.Uint16(pdu[1:]))] = r
			return r
		}
	}
	results := make([]c05Result, len(reqs))
	// a poller's working day: the same requests are sent again and again over the same clients (1 run in 150, and only
	// with devices that answer in full); every cycle must extract what the first one did
	cycles, cycleBad := 0, ""
	if shortRate != 1 && len(fields) < 1000 && t.Chance(1, 150) {
		cycles = []int{40, 130, 260, 300}[t.Choose(4)] + t.Choose(10)
		s.MaxSteps = 3000000
		rc.Probe("same_requests_polled_hundreds_of_times")
	}
	var panics []PanicRec
	s.Go("poller", false, func(tk *Task) {
		// One client per server address, kept for the whole poll cycle; all responses are collected first and the
		// fields are extracted afterwards (a response must stay valid while its client goes on to other requests).
		// Devices that cut answers short also close the connection, so those runs dial per request.
		clients := map[string]*modbus.Client{}
		for i := range reqs {
			r := &results[i]
			r.req = reqs[i]
			cl := clients[reqs[i].ServerAddress]
			if cl == nil || shortRate == 1 {
				cl = netClient(dn, fr, 100*time.Millisecond)
				if err := cl.Connect(context.Background(), reqs[i].ServerAddress); err != nil {
					r.doErr = err
					continue
				}
				clients[reqs[i].ServerAddress] = cl
			}
			r.resp, r.doErr = cl.Do(context.Background(), reqs[i].Request)
			if shortRate == 1 {
				cl.Close()
			}
		}
		for i := range reqs {
			r := &results[i]
			if r.doErr == nil {
				r.values, r.exErr = reqs[i].ExtractFields(r.resp, lenient)
			}
		}
		for c := 1; c <= cycles && cycleBad == ""; c++ {
			for i := range reqs {
				r := &results[i]
				if r.doErr != nil {
					continue
				}
				resp, err := clients[reqs[i].ServerAddress].Do(context.Background(), reqs[i].Request)
				if err != nil {
					cycleBad = fmt.Sprintf("poll cycle %d: request start=%d to %s/%d failed: %v", c+1, reqs[i].StartAddress, reqs[i].ServerAddress, reqs[i].UnitID, err)
					break
				}
				vals, exErr := reqs[i].ExtractFields(resp, lenient)
				if got, first := renderFieldValues(vals, exErr), renderFieldValues(r.values, r.exErr); got != first {
					cycleBad = fmt.Sprintf("poll cycle %d: request start=%d to %s/%d extracted %s, the first cycle %s", c+1, reqs[i].StartAddress, reqs[i].ServerAddress, reqs[i].UnitID, trunc([]byte(got), 160), trunc([]byte(first), 160))
					break
				}
			}
		}
		for _, addr := range servers {
			if cl := clients[addr]; cl != nil && shortRate != 1 {
				cl.Close()
			}
		}
	})
	s.Run()
	hang := s.Hang || s.OverStep
	s.Drain()
	panics = s.Panics
	rc.finishFrom(s)
	for _, p := range panics {
		rc.Violate("panic", sigBase+"|task="+taskKind(p.Task), "panic in %s: %s\n%s", p.Task, p.Value, firstRepoFrames(p.Stack))
	}
	if len(panics) > 0 {
		return
	}
	if hang {
		rc.Violate("hang", sigBase, "run did not finish")
		return
	}
	if cycleBad != "" {
		rc.Violate("result_changes_over_poll_cycles", sigBase, "%s", cycleBad)
		return
	}

	// wire monitor: each request seen by a device carries that device's unit and the BuilderRequest's window
	type wkey struct {
		server string
		unit   byte
		start  uint16
	}
	seen := map[wkey]int{}
	for _, sr := range dn.Seen {
		if len(sr.PDU) == 5 {
			seen[wkey{sr.Server, sr.Unit, binary.BigEndian.Uint16(sr.PDU[1:])}]++
		}
	}
	got := map[modbus.Field]int{}
	for _, r := range results {
		k := wkey{r.req.ServerAddress, r.req.UnitID, r.req.StartAddress}
		if seen[k] == 0 {
			rc.Violate("misrouted_request", sigBase, "request for server %s unit %d start %d was not seen by that device (seen: %d requests)", k.server, k.unit, k.start, len(dn.Seen))
			return
		}
		if r.doErr != nil {
			rc.Violate("unexpected_error", sigBase+"|at=do", "request start=%d to %s/%d failed: %v", r.req.StartAddress, r.req.ServerAddress, r.req.UnitID, r.doErr)
			return
		}
		short := shorts[fmt.Sprintf("%s/%d/%d", r.req.ServerAddress, r.req.UnitID, r.req.StartAddress)]
		dev := dn.Device(r.req.ServerAddress, r.req.UnitID)
		reachable := func(f modbus.Field) bool {
			if short == 0 {
				return true
			}
			return int(f.Address)-int(r.req.StartAddress)+refFieldRegs(f) <= short
		}
		anyUnreachable := false
		for _, f := range r.req.Fields {
			if !reachable(f) {
				anyUnreachable = true
			}
		}
		if short > 0 {
			rc.Fault("short_answer", anyUnreachable)
		}
		if anyUnreachable && !lenient {
			if r.exErr == nil || r.values != nil {
				rc.Violate("strict_returned_values", sigBase, "answer holds %d registers, some fields are out of reach, strict extraction returned %d values and error %v", short, len(r.values), r.exErr)
			}
			for _, f := range r.req.Fields {
				got[f]++ // accounted for: strict mode fails as a whole
			}
			continue
		}
		if !anyUnreachable && r.exErr != nil {
			f0 := firstFailing(r.values)
			rc.Violate("unexpected_error", fmt.Sprintf("%s|at=extract|type=%s|window_end_wraps=%v", sigBase, f0, windowWraps(r.req)),
				"extraction from a complete answer failed: %v (request start=%d, %d fields, first failing field %s)", r.exErr, r.req.StartAddress, len(r.req.Fields), f0)
			return
		}
		if anyUnreachable && !errors.Is(r.exErr, modbus.ErrorFieldExtractHadError) {
			rc.Violate("lenient_marking_wrong", sigBase+"|what=error_value", "lenient extraction from a short answer returned error %v", r.exErr)
		}
		if len(r.values) != len(r.req.Fields) {
			rc.Violate("missing_field", sigBase, "request carries %d fields, extraction returned %d values", len(r.req.Fields), len(r.values))
			return
		}
		for _, fv := range r.values {
			f := fv.Field
			got[f]++
			if f.ServerAddress != r.req.ServerAddress || f.UnitID != r.req.UnitID {
				rc.Violate("field_mismatch", sigBase, "field %s of %s/%d reported by the request to %s/%d", f.Name, f.ServerAddress, f.UnitID, r.req.ServerAddress, r.req.UnitID)
				return
			}
			if !reachable(f) {
				if fv.Error == nil {
					rc.Violate("lenient_marking_wrong", fmt.Sprintf("%s|what=unreachable_not_marked|type=%s", sigBase, fieldTypeName(f.Type)),
						"field %s (%s at %d, %d registers) lies beyond the %d registers answered (window starts at %d) but carries value %v and no error", f.Name, fieldTypeName(f.Type), f.Address, refFieldRegs(f), short, r.req.StartAddress, fv.Value)
					return
				}
				continue
			}
			if fv.Error != nil {
				rc.Violate("lenient_marking_wrong", fmt.Sprintf("%s|what=reachable_marked|type=%s", sigBase, fieldTypeName(f.Type)), "field %s is inside the answered registers but is marked failed: %v", f.Name, fv.Error)
				return
			}
			exp, ok := RefDecode(dev, tab, f)
			if !ok {
				continue
			}
			if !sameValue(exp, fv.Value) {
				rc.Violate("wrong_value", fmt.Sprintf("%s|type=%s|order=%d|short=%v", sigBase, fieldTypeName(f.Type), f.ByteOrder, short > 0),
					"field %s (%s at %d, byte order %d, len %d, bit %d, high=%v) of %s/%d: extracted %#v (%T), device memory decodes to %#v (%T)", f.Name, fieldTypeName(f.Type), f.Address, f.ByteOrder, f.Length, f.Bit, f.FromHighByte,
					f.ServerAddress, f.UnitID, fv.Value, fv.Value, exp, exp)
				return
			}
		}
	}
	for f, n := range want {
		if got[f] < n {
			rc.Violate("missing_field", sigBase, "field %s (%s at %d on %s/%d) requested %d times, reported %d times", f.Name, fieldTypeName(f.Type), f.Address, f.ServerAddress, f.UnitID, n, got[f])
			return
		}
		if got[f] > n {
			rc.Violate("duplicate_field", sigBase, "field %s requested %d times, reported %d times", f.Name, n, got[f])
			return
		}
	}
	for f := range got {
		if want[f] == 0 {
			rc.Violate("field_mismatch", sigBase, "reported field %s (%s) was never requested as a register field", f.Name, fieldTypeName(f.Type))
			return
		}
	}
}

func windowWraps(r modbus.BuilderRequest) bool {
	type q interface{ Bytes() []byte }
	b := r.Request.Bytes()
	var qty int
	if len(b) == 12 {
		qty = int(binary.BigEndian.Uint16(b[10:]))
	} else if len(b) == 8 {
		qty = int(binary.BigEndian.Uint16(b[4:]))
	}
	return int(r.StartAddress)+qty == 65536
}

func firstFailing(vs []modbus.FieldValue) string {
	for _, v := range vs {
		if v.Error != nil {
			return fieldTypeName(v.Field.Type)
		}
	}
	return "?"
}

func describeFields(fs modbus.Fields) []string {
	var out []string
	for i, f := range fs {
		if i >= 14 {
			out = append(out, fmt.Sprintf("... (%d fields)", len(fs)))
			break
		}
		out = append(out, fmt.Sprintf("%s:%s@%d/%s/u%d bo=%d len=%d", f.Name, fieldTypeName(f.Type), f.Address, f.ServerAddress, f.UnitID, f.ByteOrder, f.Length))
	}
	return out
}
