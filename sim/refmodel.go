package sim

// Reference model written from the MODBUS Application Protocol Specification
// V1.1b3 text (and the Modbus over serial line / Modbus messaging on TCP
// guides for framing). It never calls into the library under test.

import (
	"encoding/binary"
	"fmt"
)

// RefCRC16 is the bitwise Modbus CRC (poly 0xA001 reflected, init 0xFFFF).
func RefCRC16(b []byte) uint16 {
	crc := uint16(0xFFFF)
	for _, x := range b {
		crc ^= uint16(x)
		for i := 0; i < 8; i++ {
			lsb := crc & 1
			crc >>= 1
			if lsb != 0 {
				crc ^= 0xA001
			}
		}
	}
	return crc
}

// FrameTCP wraps a PDU in an MBAP header.
func FrameTCP(tid uint16, unit byte, pdu []byte) []byte {
	out := make([]byte, 7+len(pdu))
	binary.BigEndian.PutUint16(out[0:], tid)
	binary.BigEndian.PutUint16(out[2:], 0)
	binary.BigEndian.PutUint16(out[4:], uint16(len(pdu)+1))
	out[6] = unit
	copy(out[7:], pdu)
	return out
}

// FrameRTU wraps a PDU in address + CRC (low byte first).
func FrameRTU(unit byte, pdu []byte) []byte {
	out := make([]byte, 0, 3+len(pdu))
	out = append(out, unit)
	out = append(out, pdu...)
	crc := RefCRC16(out)
	return append(out, byte(crc), byte(crc>>8))
}

// RTUConsistent reports whether frame is at least address+fc+crc long and its trailer matches.
func RTUConsistent(frame []byte) bool {
	if len(frame) < 4 {
		return false
	}
	n := len(frame)
	return RefCRC16(frame[:n-2]) == uint16(frame[n-2])|uint16(frame[n-1])<<8
}

// UnframeTCP splits one complete TCP ADU. ok=false when the bytes are not exactly one ADU.
func UnframeTCP(frame []byte) (tid uint16, unit byte, pdu []byte, ok bool) {
	if len(frame) < 8 {
		return
	}
	if frame[2] != 0 || frame[3] != 0 {
		return
	}
	l := int(binary.BigEndian.Uint16(frame[4:]))
	if l < 2 || len(frame) != 6+l {
		return
	}
	return binary.BigEndian.Uint16(frame[0:]), frame[6], frame[7:], true
}

// SplitTCPStream cuts a byte stream into ADUs by the MBAP length field.
// rest holds trailing bytes that do not form a complete ADU.
func SplitTCPStream(b []byte) (frames [][]byte, rest []byte) {
	for len(b) >= 7 {
		l := int(binary.BigEndian.Uint16(b[4:]))
		if len(b) < 6+l || l < 2 {
			break
		}
		frames = append(frames, b[:6+l])
		b = b[6+l:]
	}
	return frames, b
}

// ---- request description (spec level) ----

type Req struct {
	FC     byte
	Addr   uint16 // start address (read start for FC23)
	Qty    uint16 // quantity (read quantity for FC23); value for FC5/FC6
	WAddr  uint16 // FC23 write start
	Coils  []bool // FC15
	Regs   []byte // FC16 / FC23 write data (big endian register bytes)
	RawPDU []byte // if set, used verbatim
}

func packBits(bits []bool) []byte {
	out := make([]byte, (len(bits)+7)/8)
	for i, b := range bits {
		if b {
			out[i/8] |= 1 << (uint(i) % 8)
		}
	}
	return out
}

// PDU encodes the request PDU per the specification.
func (r Req) PDU() []byte {
	if r.RawPDU != nil {
		return r.RawPDU
	}
	switch r.FC {
	case 1, 2, 3, 4, 5, 6:
		p := make([]byte, 5)
		p[0] = r.FC
		binary.BigEndian.PutUint16(p[1:], r.Addr)
		binary.BigEndian.PutUint16(p[3:], r.Qty)
		return p
	case 15:
		data := packBits(r.Coils)
		p := make([]byte, 6, 6+len(data))
		p[0] = r.FC
		binary.BigEndian.PutUint16(p[1:], r.Addr)
		binary.BigEndian.PutUint16(p[3:], uint16(len(r.Coils)))
		p[5] = byte(len(data))
		return append(p, data...)
	case 16:
		p := make([]byte, 6, 6+len(r.Regs))
		p[0] = r.FC
		binary.BigEndian.PutUint16(p[1:], r.Addr)
		binary.BigEndian.PutUint16(p[3:], uint16(len(r.Regs)/2))
		p[5] = byte(len(r.Regs))
		return append(p, r.Regs...)
	case 17:
		return []byte{17}
	case 23:
		p := make([]byte, 10, 10+len(r.Regs))
		p[0] = r.FC
		binary.BigEndian.PutUint16(p[1:], r.Addr)
		binary.BigEndian.PutUint16(p[3:], r.Qty)
		binary.BigEndian.PutUint16(p[5:], r.WAddr)
		binary.BigEndian.PutUint16(p[7:], uint16(len(r.Regs)/2))
		p[9] = byte(len(r.Regs))
		return append(p, r.Regs...)
	}
	return []byte{r.FC}
}

// ---- device ----

const (
	TabCoils = iota
	TabDiscrete
	TabHolding
	TabInput
)

// Device is a conforming Modbus server data model: four tables of 65536 entries.
// Default contents are a hash of (seed, table, address) so every value is attributable.
type Device struct {
	Seed     uint64
	ServerID []byte
	Status   byte
	Extra    []byte
	regs     [2]map[uint16]uint16 // holding, input overrides
	bits     [2]map[uint16]bool   // coils, discrete overrides
	// ASCII mode: a fraction of registers hold printable characters / NULs
	ASCIIEvery int
	// Special mode: every SpecialEvery-th register (by hash) holds one of the values at which representations change or
	// which resemble protocol bytes (all zeros / all ones, sign bits, NaN / Inf / negative zero halves, CR LF, bytes >= 0x80,
	// exception-flag and function-code look-alikes)
	SpecialEvery int
	ReadOnly     bool // validate and echo writes but do not store them
}

var specialRegs = []uint16{0x0000, 0xFFFF, 0x8000, 0x7FFF, 0x00FF, 0xFF00, 0x0001, 0x0100, 0x7FC0, 0x7FF8, 0xFFC0, 0x7F80, 0xFF80, 0x7FF0, 0xFFF0,
	0x0A0D, 0x0D0A, 0x8080, 0xB0C3, 0x2000, 0x0020, 0x8300, 0x0083, 0x1100, 0x0300, 0x0003, 0x00E9, 0xC3A9}

func NewDevice(seed uint64) *Device {
	d := &Device{Seed: seed, ServerID: []byte{byte(seed), byte(seed >> 8)}, Status: 0xFF}
	d.regs[0], d.regs[1] = map[uint16]uint16{}, map[uint16]uint16{}
	d.bits[0], d.bits[1] = map[uint16]bool{}, map[uint16]bool{}
	return d
}

func (d *Device) Reg(tab int, a uint16) uint16 {
	if v, ok := d.regs[tab-TabHolding][a]; ok {
		return v
	}
	h := Mix(d.Seed, uint64(tab), uint64(a))
	if d.SpecialEvery > 0 && int(h>>44)%d.SpecialEvery == 0 {
		return specialRegs[int(h>>20)%len(specialRegs)]
	}
	if d.ASCIIEvery > 0 && int(h>>40)%d.ASCIIEvery == 0 {
		// printable pair, sometimes with a NUL
		hi := byte(0x41 + (h>>8)%26)
		lo := byte(0x61 + (h>>16)%26)
		switch (h >> 24) % 8 {
		case 0:
			lo = 0
		case 1:
			hi = 0
		}
		return uint16(hi)<<8 | uint16(lo)
	}
	return uint16(h)
}

func (d *Device) SetReg(tab int, a uint16, v uint16) {
	if !d.ReadOnly {
		d.regs[tab-TabHolding][a] = v
	}
}

func (d *Device) Bit(tab int, a uint16) bool {
	if v, ok := d.bits[tab][a]; ok {
		return v
	}
	return Mix(d.Seed, uint64(tab), uint64(a))&1 == 1
}

func (d *Device) SetBit(tab int, a uint16, v bool) {
	if !d.ReadOnly {
		d.bits[tab][a] = v
	}
}

func exc(fc, code byte) []byte { return []byte{fc | 0x80, code} }

// Exec executes one request PDU and returns the response PDU (normal or exception),
// following the state diagrams of the specification (function → quantity → address → execute).
func (d *Device) Exec(pdu []byte) []byte {
	if len(pdu) == 0 {
		return nil
	}
	fc := pdu[0]
	u16 := func(i int) int { return int(binary.BigEndian.Uint16(pdu[i:])) }
	switch fc {
	case 1, 2:
		if len(pdu) != 5 {
			return exc(fc, 3)
		}
		a, q := u16(1), u16(3)
		if q < 1 || q > 2000 {
			return exc(fc, 3)
		}
		if a+q > 65536 {
			return exc(fc, 2)
		}
		bits := make([]bool, q)
		for i := range bits {
			bits[i] = d.Bit(int(fc)-1, uint16(a+i))
		}
		data := packBits(bits)
		return append([]byte{fc, byte(len(data))}, data...)
	case 3, 4:
		if len(pdu) != 5 {
			return exc(fc, 3)
		}
		a, q := u16(1), u16(3)
		if q < 1 || q > 125 {
			return exc(fc, 3)
		}
		if a+q > 65536 {
			return exc(fc, 2)
		}
		out := make([]byte, 2+2*q)
		out[0], out[1] = fc, byte(2*q)
		for i := 0; i < q; i++ {
			binary.BigEndian.PutUint16(out[2+2*i:], d.Reg(int(fc)-1, uint16(a+i)))
		}
		return out
	case 5:
		if len(pdu) != 5 {
			return exc(fc, 3)
		}
		a, v := u16(1), u16(3)
		if v != 0 && v != 0xFF00 {
			return exc(fc, 3)
		}
		d.SetBit(TabCoils, uint16(a), v == 0xFF00)
		return append([]byte(nil), pdu...)
	case 6:
		if len(pdu) != 5 {
			return exc(fc, 3)
		}
		d.SetReg(TabHolding, uint16(u16(1)), uint16(u16(3)))
		return append([]byte(nil), pdu...)
	case 15:
		if len(pdu) < 6 {
			return exc(fc, 3)
		}
		a, q, bc := u16(1), u16(3), int(pdu[5])
		if q < 1 || q > 0x7B0 || bc != (q+7)/8 || len(pdu) != 6+bc {
			return exc(fc, 3)
		}
		if a+q > 65536 {
			return exc(fc, 2)
		}
		for i := 0; i < q; i++ {
			d.SetBit(TabCoils, uint16(a+i), pdu[6+i/8]&(1<<(uint(i)%8)) != 0)
		}
		return append([]byte(nil), pdu[:5]...)
	case 16:
		if len(pdu) < 6 {
			return exc(fc, 3)
		}
		a, q, bc := u16(1), u16(3), int(pdu[5])
		if q < 1 || q > 0x7B || bc != 2*q || len(pdu) != 6+bc {
			return exc(fc, 3)
		}
		if a+q > 65536 {
			return exc(fc, 2)
		}
		for i := 0; i < q; i++ {
			d.SetReg(TabHolding, uint16(a+i), binary.BigEndian.Uint16(pdu[6+2*i:]))
		}
		return append([]byte(nil), pdu[:5]...)
	case 17:
		if len(pdu) != 1 {
			return exc(fc, 3)
		}
		// layout as the library documents it: byte count of the server id, the id, run status, optional extra data
		out := []byte{17, byte(len(d.ServerID))}
		out = append(out, d.ServerID...)
		out = append(out, d.Status)
		return append(out, d.Extra...)
	case 23:
		if len(pdu) < 10 {
			return exc(fc, 3)
		}
		ra, rq, wa, wq, bc := u16(1), u16(3), u16(5), u16(7), int(pdu[9])
		if rq < 1 || rq > 0x7D || wq < 1 || wq > 0x79 || bc != 2*wq || len(pdu) != 10+bc {
			return exc(fc, 3)
		}
		if ra+rq > 65536 || wa+wq > 65536 {
			return exc(fc, 2)
		}
		for i := 0; i < wq; i++ {
			d.SetReg(TabHolding, uint16(wa+i), binary.BigEndian.Uint16(pdu[10+2*i:]))
		}
		out := make([]byte, 2+2*rq)
		out[0], out[1] = fc, byte(2*rq)
		for i := 0; i < rq; i++ {
			binary.BigEndian.PutUint16(out[2+2*i:], d.Reg(TabHolding, uint16(ra+i)))
		}
		return out
	}
	return exc(fc, 1)
}

func IsExceptionPDU(p []byte) bool { return len(p) == 2 && p[0]&0x80 != 0 }

func (r Req) String() string {
	switch r.FC {
	case 15:
		return fmt.Sprintf("fc15 addr=%d coils=%d", r.Addr, len(r.Coils))
	case 16:
		return fmt.Sprintf("fc16 addr=%d regs=%d", r.Addr, len(r.Regs)/2)
	case 23:
		return fmt.Sprintf("fc23 raddr=%d rqty=%d waddr=%d wregs=%d", r.Addr, r.Qty, r.WAddr, len(r.Regs)/2)
	case 17:
		return "fc17"
	}
	return fmt.Sprintf("fc%d addr=%d qty/val=%d", r.FC, r.Addr, r.Qty)
}
