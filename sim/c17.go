package sim

// Scenario family `lifecycle` and C17 — server lifecycle: safe with any callbacks,
// exact accounting, graceful shutdown, cancellation.

import (
	"bytes"
	"context"
	"encoding/binary"
	"errors"
	"fmt"
	"io"
	"net"
	"os"
	"strings"
	"sync"
	"sync/atomic"
	"time"

	"github.com/aldas/go-modbus-client/packet"
	"github.com/aldas/go-modbus-client/server"
)

func init() {
	Register(&Property{ID: "C17", Run: runC17, Strata: strataC17})
}

// strata: callback combination (16) x controller action (3): first two draws of genC17.
func strataC17(tier string) [][]int32 {
	var out [][]int32
	for cb := 0; cb < 16; cb++ {
		for act := 0; act < 3; act++ {
			out = append(out, []int32{int32(cb), int32(act)})
		}
	}
	return out
}

type lifeOp struct {
	Kind     string // "req" | "idle" | "close" | "hold"
	Frame    []byte
	TID      uint16
	Cut      int           // req: first write covers Cut bytes (0 = whole)
	Gap      time.Duration // req: pause between the two writes; idle: duration
	Work     time.Duration // handler duration for this request
	CtxAware bool          // the handler watches its context while it works and gives up when it ends
	Panic    bool
}

type lifeClient struct {
	Delay time.Duration
	Ops   []lifeOp
}

type lifeScenario struct {
	Callbacks          int    // bit0 OnServe, bit1 OnError, bit2 OnAccept, bit3 OnClose
	Action             string // "shutdown" | "shutdown_tight" | "cancel"
	ActionAt           time.Duration
	ShutdownCtx        time.Duration
	Clients            []lifeClient
	RejectEvery        int // OnAccept rejects every n-th connection (0 = never)
	OnServeWork        time.Duration
	CallbackWork       time.Duration
	ReadTimeout        time.Duration
	AddrCaller         bool
	Second             string        // "" | "shutdown" | "cancel": a second lifecycle call by another goroutine
	SecondAfter        time.Duration // that long after the first one was issued
	Trigger            string        // what the controller waits for before acting: "time" | "handler_start" | "handler_end" | "accept" | "write_begin"
	TriggerN           int           // the n-th such event
	TriggerDelay       time.Duration // then this much later
	WriteDelay         time.Duration // simulated duration of every server-side write
	DoubleCloseErr     bool          // server-side connections fail a second Close, as real sockets do
	SecondServe        string        // "" | "cancel" | "shutdown": after a serving that ended by context cancellation the same Server value serves again on a new listener, and that serving is ended this way
	LongSession        bool          // the lifecycle action comes only after 26-30 simulated seconds: connections that stay silent are closed by the server's idle limit first
	ManyClients        bool          // some 300 short-lived connections before the lifecycle action
	Epoch              bool          // one connection that has been answered more than 65536 times when the lifecycle action finds its next request in the handler
	ReentrantCallbacks bool          // the accept, close and error callbacks ask the server for its address while they run
	OwnCloseErr        bool          // the listener's Accept answers with an error of its own once it is closed (as in-memory listeners do), not net.ErrClosed
	SameAddr           bool          // every connection reports the same remote address (as on a net.Pipe or unix-socket listener): callbacks cannot tell connections apart, per-connection callback oracles become totals
	Race               bool
}

type acceptObs struct {
	Remote    string
	Count     uint64
	Adds      int // connections tracked so far (accepted, not rejected), before this one
	Closed    int // server-side connections on which Close has been called
	Untracked int // completed untrack operations
	CloseCBs  int // close callbacks begun (a connection reported closed is not a live connection)
	Rejected  bool
	Step      int
}

// secondServeObs: what happened when the same Server value served a second time.
type secondServeObs struct {
	Started, Returned bool
	Err               error
	Reply, Want       []byte
	EndAt, RetAt      time.Duration
	ShutdownErr       error
	ShutdownReturned  bool
	DialAfter         string // "refused" | "accepted"
}

type shutdownObs struct {
	Err  error
	Step int
	At   time.Duration
}

type lifeOutcome struct {
	Second *shutdownObs // result of the second, concurrent Shutdown call (if any)

	mu                                 sync.Mutex
	Accepts                            []acceptObs
	CloseCB                            map[string]int
	CloseCBFlag                        map[string]bool
	ServeCalled                        int
	Errors                             []string
	HandlerStart                       map[uint16]int // tid -> step
	HandlerEnd                         map[uint16]int
	Aborted                            map[uint16]bool // handlers that gave up because their context ended
	AppCancelled                       bool            // the scenario itself cancelled the serve context at some point
	Serve2                             *secondServeObs
	ShutdownStartStep, ShutdownRetStep int
	WritesBegun                        int
	ShutdownErr                        error
	ShutdownDone                       bool
	ShutdownAt                         time.Duration
	CancelAt                           time.Duration
	CancelStep                         int
	Cancelled                          bool
	ServeRet                           bool
	ServeErr                           error
	ServeRetAt                         time.Duration
	ServeRetStep                       int
	Panics                             []PanicRec
	DialRefusedAfter                   bool
	LateDialTried                      bool
	ClientSaw                          []string // per client: "eof" | "open" | "closed_by_client" | "refused"
	ClientRecv                         [][]byte
	ClientConn                         []*Conn
	IdleAtShutdown                     []bool
	Hang, OverStep                     bool
	SrvClosedAtEnd                     []bool // per client: server end closed when the last foreground task finished (before Drain)
}

func genC17(t *Tape) *lifeScenario {
	sc := &lifeScenario{}
	sc.Callbacks = t.Choose(16)
	sc.Action = []string{"shutdown", "shutdown_tight", "cancel"}[t.Choose(3)]
	// a second lifecycle call made concurrently with (or right after) the first: a second Shutdown, or a Shutdown after cancel
	sc.Second = []string{"", "", "", "shutdown", "cancel"}[t.Choose(5)]
	sc.SecondAfter = []time.Duration{0, 0, 300 * time.Microsecond, 20 * time.Millisecond, 80 * time.Millisecond}[t.Choose(5)]
	sc.ActionAt = []time.Duration{0, 0, time.Millisecond, 5 * time.Millisecond, 20 * time.Millisecond, 60 * time.Millisecond, 150 * time.Millisecond, 400 * time.Millisecond}[t.Choose(8)]
	if sc.ActionAt > 0 { // keep the exact instant 0: the controller may then act before Serve has even started
		sc.ActionAt += time.Duration(t.Choose(3000)) * time.Microsecond
	}
	sc.ShutdownCtx = 5 * time.Second
	if sc.Action == "shutdown_tight" {
		sc.ShutdownCtx = time.Duration(1+t.Choose(80))*time.Millisecond + 137*time.Nanosecond // (a runtime timer: kept off the instants of Shutdown's own 50 ms polling timer)
		if t.Chance(1, 6) {
			sc.ShutdownCtx = 0 // a context whose deadline has already passed when Shutdown is called
		}
	}
	nc := t.Pick(1, 3, 3, 2, 1, 1)
	tid := uint16(100 + t.Choose(1000))
	for c := 0; c < nc; c++ {
		cl := lifeClient{Delay: time.Duration(t.Choose(100000)) * time.Microsecond}
		if t.Chance(1, 3) {
			cl.Delay = 0
		}
		nops := 1 + t.Choose(4)
		for o := 0; o < nops; o++ {
			switch t.Pick(5, 2, 1) {
			case 0:
				fc := []byte{3, 4, 1, 6, 16, 5}[t.Choose(6)]
				unit := byte(1 + c)
				if t.Chance(1, 8) {
					unit = []byte{0, 255}[t.Choose(2)]
				}
				r, ok := genValidSrvReq(t, fc, unit, tid)
				tid++
				if !ok {
					continue
				}
				op := lifeOp{Kind: "req", Frame: r.Frame, TID: r.TID}
				if t.Chance(1, 3) {
					op.Cut = 1 + t.Choose(len(r.Frame)-1)
					op.Gap = time.Duration(t.Choose(12000)) * time.Microsecond
				}
				op.Work = []time.Duration{0, 0, time.Millisecond, 10 * time.Millisecond, 60 * time.Millisecond, 200 * time.Millisecond}[t.Choose(6)]
				op.Panic = t.Chance(1, 12)
				op.CtxAware = t.Choose(2) == 1
				if t.Chance(1, 14) {
					// a handler that takes seconds (a slow downstream bus) and does not look at its context: whatever waits
					// for it, a cancelled Serve does not
					op.Work = time.Duration(1200+t.Choose(1800)) * time.Millisecond
					op.CtxAware, op.Panic = false, false
				}
				cl.Ops = append(cl.Ops, op)
			case 1:
				cl.Ops = append(cl.Ops, lifeOp{Kind: "idle", Gap: time.Duration(1+t.Choose(100)) * time.Millisecond})
			case 2:
				cl.Ops = append(cl.Ops, lifeOp{Kind: "close"})
			}
		}
		if t.Chance(2, 3) {
			cl.Ops = append(cl.Ops, lifeOp{Kind: "hold"})
		} else {
			cl.Ops = append(cl.Ops, lifeOp{Kind: "close"})
		}
		sc.Clients = append(sc.Clients, cl)
	}
	if t.Chance(1, 150) {
		// a long-lived server: some 300 clients come, ask once and go, one after the other (with a few overlapping), before
		// the lifecycle action; two stay connected to the end
		sc.ManyClients = true
		sc.Clients = nil
		n := 265 + t.Choose(60)
		if t.Chance(1, 4) {
			n = 1030 + t.Choose(70) // past a thousand
		}
		// a few of them stay: the last two, and one or two that arrive around the 256th connection (where tables sized
		// in powers of two fill up); one early client outlives nearly all the others and leaves shortly before the end
		stays := map[int]bool{n - 2: true, n - 1: true}
		for k := 0; k < 1+t.Choose(2); k++ {
			stays[250+t.Choose(12)] = true
		}
		lateLeaver := -1
		if t.Chance(1, 2) {
			lateLeaver = 1 + t.Choose(3)
		}
		for c := 0; c < n; c++ {
			r, ok := genValidSrvReq(t, []byte{3, 4, 1}[c%3], byte(1+c%200), tid)
			tid++
			if !ok {
				continue
			}
			cl := lifeClient{Delay: time.Duration(c)*700*time.Microsecond + time.Duration(t.Choose(900))*time.Microsecond}
			cl.Ops = append(cl.Ops, lifeOp{Kind: "req", Frame: r.Frame, TID: r.TID})
			if stays[c] {
				cl.Ops = append(cl.Ops, lifeOp{Kind: "hold"})
			} else if c == lateLeaver {
				cl.Ops = append(cl.Ops, lifeOp{Kind: "idle", Gap: time.Duration(n)*700*time.Microsecond - cl.Delay + time.Duration(5+t.Choose(40))*time.Millisecond}, lifeOp{Kind: "close"})
			} else {
				cl.Ops = append(cl.Ops, lifeOp{Kind: "close"})
			}
			sc.Clients = append(sc.Clients, cl)
		}
		sc.Trigger, sc.TriggerDelay = "time", 0
		sc.ActionAt = time.Duration(n)*700*time.Microsecond + 80*time.Millisecond
	}
	if t.Chance(1, 4) {
		sc.RejectEvery = 1 + t.Choose(3)
	}
	if sc.ManyClients && len(sc.Clients) > 1000 && t.Chance(1, 2) {
		sc.RejectEvery = 1 // every one of them is turned away by the accept callback
	}
	sc.OnServeWork = []time.Duration{0, 0, 2 * time.Millisecond, 30 * time.Millisecond}[t.Choose(4)]
	sc.CallbackWork = []time.Duration{0, 0, time.Millisecond, 8 * time.Millisecond}[t.Choose(4)]
	sc.ReadTimeout = []time.Duration{0, 2 * time.Millisecond, 20 * time.Millisecond}[t.Choose(3)]
	if t.Chance(1, 10) {
		sc.ReadTimeout = 3 * time.Second // a server whose reads wait long for the next bytes
	}
	sc.AddrCaller = t.Chance(1, 4)
	// Half of the runs aim the controller at an event instead of a time: shutdown/cancel right after the n-th handler
	// start, handler end (reply pending), accept or server write begin - windows that have zero simulated duration.
	sc.Trigger = []string{"time", "time", "handler_start", "handler_end", "accept", "write_begin"}[t.Choose(6)]
	sc.TriggerN = 1 + t.Choose(3)
	sc.TriggerDelay = []time.Duration{0, 0, 200 * time.Microsecond, 3 * time.Millisecond}[t.Choose(4)]
	sc.WriteDelay = []time.Duration{0, 0, time.Millisecond, 15 * time.Millisecond}[t.Choose(4)]
	sc.DoubleCloseErr = t.Choose(2) == 1
	sc.SameAddr = t.Choose(5) == 0
	sc.OwnCloseErr = t.Choose(4) == 0
	sc.ReentrantCallbacks = t.Choose(3) == 0
	if !sc.ManyClients && t.Chance(1, 40) {
		sc.LongSession = true
		sc.Trigger, sc.TriggerDelay = "time", 0
		sc.ActionAt = time.Duration(26000+t.Choose(4000)) * time.Millisecond
		if len(sc.Clients) > 0 {
			sc.Clients[len(sc.Clients)-1].Delay = time.Duration(25200+t.Choose(1500)) * time.Millisecond // arrives when the silent ones have just been dropped
		}
	}
	if sc.Action == "cancel" && sc.Second == "" && t.Choose(3) == 0 {
		sc.SecondServe = []string{"cancel", "shutdown"}[t.Choose(2)]
	}
	if t.Chance(1, 10000) || forceScenario == "epoch" {
		// a very long session: one connection is answered a little more than 65536 times (a poller that has been
		// connected for a day); graceful shutdown is asked for while the handler works on its next request
		fast, ok1 := genValidSrvReq(t, 3, 1, 7)
		slow, ok2 := genValidSrvReq(t, 4, 1, 9)
		if ok1 && ok2 {
			sc.Epoch, sc.ManyClients, sc.LongSession = true, false, false
			cl := lifeClient{}
			n := []int{65535, 65536, 65537, 65540}[t.Choose(4)]
			for i := 0; i < n; i++ {
				cl.Ops = append(cl.Ops, lifeOp{Kind: "req", Frame: fast.Frame, TID: fast.TID})
			}
			cl.Ops = append(cl.Ops, lifeOp{Kind: "req", Frame: slow.Frame, TID: slow.TID, Work: 60 * time.Millisecond}, lifeOp{Kind: "hold"})
			sc.Clients = []lifeClient{cl}
			sc.Action, sc.ShutdownCtx, sc.Second, sc.SecondServe = "shutdown", 5*time.Second, "", ""
			sc.Trigger, sc.TriggerN, sc.TriggerDelay = "handler_start", 2, time.Duration(t.Choose(2))*200*time.Microsecond
			sc.RejectEvery, sc.WriteDelay, sc.CallbackWork, sc.OnServeWork = 0, 0, 0, 0
		}
	}
	return sc
}

type lifeHandler struct {
	s    *Sim
	out  *lifeOutcome
	ops  map[uint16]*lifeOp
	seed uint64
	n    int
	race bool
}

func (h *lifeHandler) Handle(ctx context.Context, req packet.Request) (packet.Response, error) {
	b := req.Bytes()
	tid, unit, pdu, _ := UnframeTCP(b)
	op := h.ops[tid] // read-only after set-up
	id := ""
	if !h.race {
		h.out.mu.Lock()
		h.n++
		seq := h.n
		h.out.HandlerStart[tid] = h.s.Step
		h.out.mu.Unlock()
		h.s.Logf("handle-start tid=%d", tid)
		id = fmt.Sprintf("handler#%d", seq)
	}
	var work time.Duration
	if op != nil {
		work = op.Work
	}
	at := time.Now().Add(work)
	watch := op != nil && op.CtxAware
	if h.s.Park(id, "handle-work", func(now time.Time) (bool, Reason, time.Time) {
		if !now.Before(at) || (watch && ctx.Err() != nil) {
			return true, Ready, time.Time{}
		}
		return false, Ready, at
	}) == Drained {
		return nil, errors.New("simulation over")
	}
	if watch && ctx.Err() != nil {
		// a well-behaved handler: the context it was given has ended, so it stops working
		if !h.race {
			h.out.mu.Lock()
			h.out.Aborted[tid] = true
			h.out.mu.Unlock()
			h.s.Logf("handle-aborted tid=%d", tid)
		}
		return nil, ctx.Err()
	}
	if op != nil && op.Panic {
		if tid%2 == 1 {
			panic(uncomparablePanic{"handler panics on purpose"})
		}
		panic("handler panics on purpose")
	}
	dev := NewDevice(Mix(h.seed, uint64(unit), 7))
	dev.ReadOnly = true
	rp := dev.Exec(pdu)
	if !h.race {
		h.out.mu.Lock()
		h.out.HandlerEnd[tid] = h.s.Step
		h.out.mu.Unlock()
	}
	return rawResp{fc: req.FunctionCode(), b: FrameTCP(tid, unit, rp)}, nil
}

func lifeModelReply(seed uint64, frame []byte) []byte {
	tid, unit, pdu, _ := UnframeTCP(frame)
	dev := NewDevice(Mix(seed, uint64(unit), 7))
	dev.ReadOnly = true
	return FrameTCP(tid, unit, dev.Exec(pdu))
}

func runLife(rc *RunCtx, sc *lifeScenario, seed uint64) *lifeOutcome {
	s := NewSim(rc.Sched)
	s.Tracing = rc.Tracing
	s.Free = sc.Race
	if sc.LongSession || sc.ManyClients {
		s.MaxSteps = 600000
	}
	if sc.Epoch {
		s.MaxSteps = 6000000
	}
	out := &lifeOutcome{CloseCB: map[string]int{}, CloseCBFlag: map[string]bool{}, HandlerStart: map[uint16]int{}, HandlerEnd: map[uint16]int{}, Aborted: map[uint16]bool{},
		ClientSaw: make([]string, len(sc.Clients)), ClientRecv: make([][]byte, len(sc.Clients)), ClientConn: make([]*Conn, len(sc.Clients)),
		IdleAtShutdown: make([]bool, len(sc.Clients))}
	untracked, closeCBs := 0, 0
	// every lock acquisition by a goroutine of the server itself (a connection goroutine) is its untrack; the counter
	// update follows within the same scheduler step
	s.LockObserver = func(named bool) {
		if !named {
			out.mu.Lock()
			untracked++
			out.mu.Unlock()
		}
	}
	defer s.Activate()()

	ln := NewListener(s, "L")
	if sc.OwnCloseErr {
		ln.ClosedErr = errors.New("closed") // what grpc's bufconn listener answers
	}
	ln.ConnSetup = func(cl, sv *Conn) {
		sv.DoubleCloseErr = sc.DoubleCloseErr
		if sc.SameAddr && !strings.HasPrefix(cl.Name, "M-") {
			sv.AddrOverride = "pipe"
		}
		if sc.WriteDelay > 0 {
			sv.WriteDelay = func() time.Duration { return sc.WriteDelay }
		}
		if !sc.Race {
			sv.OnWriteBegin = func(*Conn) {
				out.mu.Lock()
				out.WritesBegun++
				out.mu.Unlock()
			}
		}
	}
	h := &lifeHandler{s: s, out: out, ops: map[uint16]*lifeOp{}, seed: seed, race: sc.Race}
	for ci := range sc.Clients {
		for oi := range sc.Clients[ci].Ops {
			op := &sc.Clients[ci].Ops[oi]
			if op.Kind == "req" {
				h.ops[op.TID] = op
			}
		}
	}
	cbSeq := 0
	cbPark := func(label string, d time.Duration) {
		id := ""
		if !sc.Race {
			out.mu.Lock()
			cbSeq++
			id = fmt.Sprintf("cb#%d", cbSeq)
			out.mu.Unlock()
		}
		at := time.Now().Add(d)
		s.Park(id, label, func(now time.Time) (bool, Reason, time.Time) {
			if !now.Before(at) {
				return true, Ready, time.Time{}
			}
			return false, Ready, at
		})
	}
	srv := &server.Server{ReadTimeout: sc.ReadTimeout}
	// callbacks are the application's code and may ask the server things (its address, for a log line): the server must not
	// call them with its own lock held
	reenter := func() {
		if sc.ReentrantCallbacks && !sc.Race {
			s.AsTask("callback-asks-addr", func() { _ = srv.Addr() })
		}
	}
	adds, nAccept := 0, 0
	if sc.Callbacks&1 != 0 {
		srv.OnServeFunc = func(addr net.Addr) {
			if sc.Race {
				cbPark("OnServe", sc.OnServeWork)
				return
			}
			out.mu.Lock()
			out.ServeCalled++
			out.mu.Unlock()
			s.Logf("cb OnServe")
			cbPark("OnServe", sc.OnServeWork)
		}
	}
	srv.OnErrorFunc = nil
	if sc.Callbacks&2 != 0 {
		srv.OnErrorFunc = func(err error) {
			if sc.Race {
				return
			}
			out.mu.Lock()
			out.Errors = append(out.Errors, err.Error())
			out.mu.Unlock()
			reenter()
		}
	}
	tracked := map[string]bool{} // remote names of connections accepted and not rejected
	closedServerConns := func() int {
		n := 0
		for _, c := range ln.Conns {
			if c.closed && tracked[c.peer.Name] {
				n++
			}
		}
		return n
	}
	if sc.Callbacks&4 != 0 {
		var raceAccepts int // touched by the accept loop only
		srv.OnAcceptConnFunc = func(ctx context.Context, remote net.Addr, count uint64) error {
			if strings.HasPrefix(remote.String(), "M-") {
				return nil // the second serving's only client: outside the first serving's accounting, never turned away
			}
			if sc.Race {
				raceAccepts++
				cbPark("OnAccept", sc.CallbackWork)
				if sc.RejectEvery > 0 && raceAccepts%sc.RejectEvery == 0 {
					return errors.New("rejected by firewall rule")
				}
				return nil
			}
			s.mu.Lock()
			cl := closedServerConns()
			s.mu.Unlock()
			out.mu.Lock()
			nAccept++
			reject := sc.RejectEvery > 0 && nAccept%sc.RejectEvery == 0
			// connections accepted but rejected are closed by the server too; they were never tracked
			out.Accepts = append(out.Accepts, acceptObs{Remote: remote.String(), Count: count, Adds: adds, Closed: cl, Untracked: untracked, CloseCBs: closeCBs, Rejected: reject, Step: s.Step})
			out.mu.Unlock()
			if !reject {
				s.mu.Lock()
				tracked[remote.String()] = true
				s.mu.Unlock()
				out.mu.Lock()
				adds++
				out.mu.Unlock()
			}
			s.Logf("cb OnAccept %s count=%d", remote, count)
			reenter()
			cbPark("OnAccept", sc.CallbackWork)
			if reject {
				return errors.New("rejected by firewall rule")
			}
			return nil
		}
	}
	if sc.Callbacks&8 != 0 {
		srv.OnCloseConnFunc = func(ctx context.Context, remote net.Addr, isShutdown bool) {
			if strings.HasPrefix(remote.String(), "M-") {
				return
			}
			if sc.Race {
				cbPark("OnClose", sc.CallbackWork)
				return
			}
			out.mu.Lock()
			closeCBs++
			out.CloseCB[remote.String()]++
			out.CloseCBFlag[remote.String()] = isShutdown
			out.mu.Unlock()
			s.Logf("cb OnClose %s shutdown=%v", remote, isShutdown)
			reenter()
			cbPark("OnClose", sc.CallbackWork)
		}
	}
	// the default OnErrorFunc writes through package log: discard
	restore := silenceLog()
	defer restore()

	ctx, cancel := context.WithCancel(context.Background())
	defer cancel()
	var serveRet, firstIssued atomic.Bool
	s.Go("serve", true, func(tk *Task) {
		err := srv.Serve(ctx, ln, h)
		serveRet.Store(true)
		out.mu.Lock()
		out.ServeRet, out.ServeErr, out.ServeRetAt, out.ServeRetStep = true, err, s.Now(), s.Step
		out.mu.Unlock()
		s.Logf("serve-returned %v", err)
	})
	actionDone := false
	s.Go("controller", false, func(tk *Task) {
		if sc.Trigger == "time" || sc.Race {
			if tk.Sleep("action-timer", sc.ActionAt) == Drained {
				return
			}
		} else {
			count := func() int {
				out.mu.Lock()
				defer out.mu.Unlock()
				switch sc.Trigger {
				case "handler_start":
					return len(out.HandlerStart)
				case "handler_end":
					return len(out.HandlerEnd)
				case "write_begin":
					return out.WritesBegun
				}
				n := 0
				for _, c := range ln.Conns {
					if c.acceptedByServer {
						n++
					}
				}
				return n
			}
			// if the event never comes the controller acts at a late fixed time instead
			if tk.WaitUntil("await-"+sc.Trigger, func() bool { return count() >= sc.TriggerN }, time.Now().Add(map[bool]time.Duration{false: 600 * time.Millisecond, true: 10 * time.Minute}[sc.Epoch])) == Drained {
				return
			}
			if sc.TriggerDelay > 0 && tk.Sleep("trigger-delay", sc.TriggerDelay) == Drained {
				return
			}
		}
		firstIssued.Store(true)
		switch sc.Action {
		case "cancel":
			out.CancelAt = s.Now()
			out.CancelStep = s.Step
			out.Cancelled = true
			out.AppCancelled = true
			s.Logf("cancel-serve-ctx")
			cancel()
		default:
			sctx, scancel := context.WithTimeout(context.Background(), sc.ShutdownCtx)
			out.mu.Lock()
			out.ShutdownStartStep = s.Step
			out.mu.Unlock()
			s.Logf("shutdown-call")
			err := srv.Shutdown(sctx)
			scancel()
			// which client connections are idle right now (no request in flight)?
			out.mu.Lock()
			out.ShutdownErr, out.ShutdownDone, out.ShutdownAt, out.ShutdownRetStep = err, true, s.Now(), s.Step
			out.mu.Unlock()
			s.Logf("shutdown-returned %v", err)
		}
		actionDone = true
		// give the serve call bounded time to return without any further external event
		tk.WaitUntil("await-serve-return", func() bool { return serveRet.Load() }, time.Now().Add(2*time.Second))
		if sc.Action != "cancel" && out.ShutdownErr == nil {
			out.LateDialTried = true
			if _, err := ln.Dial(); err != nil {
				out.DialRefusedAfter = true
			}
		}
	})
	if sc.Second != "" {
		s.Go("controller2", false, func(tk *Task) {
			if tk.WaitUntil("await-first-action", func() bool { return firstIssued.Load() }, time.Now().Add(time.Second)) != Ready {
				return
			}
			if sc.SecondAfter > 0 && tk.Sleep("second-delay", sc.SecondAfter) == Drained {
				return
			}
			if sc.Second == "cancel" {
				s.Logf("second: cancel-serve-ctx")
				if !sc.Race {
					out.mu.Lock()
					out.AppCancelled = true
					out.mu.Unlock()
				}
				cancel()
				return
			}
			sctx, scancel := context.WithTimeout(context.Background(), 2*time.Second)
			defer scancel()
			s.Logf("second: shutdown-call")
			err := srv.Shutdown(sctx)
			s.Logf("second: shutdown-returned %v", err)
			if !sc.Race {
				out.mu.Lock()
				out.Second = &shutdownObs{Err: err, Step: s.Step, At: s.Now()}
				out.mu.Unlock()
			}
		})
	}
	if sc.SecondServe != "" && !sc.Race {
		s.Go("second-serving", false, func(tk *Task) {
			if tk.WaitUntil("await-first-serve-return", func() bool { return serveRet.Load() }, time.Now().Add(3*time.Second)) != Ready {
				return
			}
			if tk.Sleep("between-servings", 5*time.Millisecond) == Drained {
				return
			}
			obs := &secondServeObs{Started: true}
			out.mu.Lock()
			out.Serve2 = obs
			out.mu.Unlock()
			ln2 := NewListener(s, "M")
			ln2.ClosedErr = ln.ClosedErr
			ctx2, cancel2 := context.WithCancel(context.Background())
			defer cancel2()
			var ret2 atomic.Bool
			s.Go("serve2", true, func(tk *Task) {
				err := srv.Serve(ctx2, ln2, h)
				out.mu.Lock()
				obs.Returned, obs.Err, obs.RetAt = true, err, s.Now()
				out.mu.Unlock()
				ret2.Store(true)
				s.Logf("serve2-returned %v", err)
			})
			// one client, one request
			frame := FrameTCP(65001, 1, []byte{3, 0, 0, 0, 2})
			obs.Want = lifeModelReply(seed, frame)
			if tk.Sleep("second-client-delay", time.Millisecond) == Drained {
				return
			}
			if c2, err := ln2.Dial(); err == nil {
				c2.Write(frame)
				tmp := make([]byte, 64)
				c2.SetReadDeadline(time.Now().Add(300 * time.Millisecond))
				for len(obs.Reply) < len(obs.Want) {
					n, err := c2.Read(tmp)
					obs.Reply = append(obs.Reply, tmp[:n]...)
					if err != nil {
						break
					}
				}
			}
			obs.EndAt = s.Now()
			if sc.SecondServe == "cancel" {
				s.Logf("serve2: cancel")
				cancel2()
			} else {
				sctx, scancel := context.WithTimeout(context.Background(), time.Second)
				err := srv.Shutdown(sctx)
				scancel()
				obs.ShutdownErr, obs.ShutdownReturned = err, true
				s.Logf("serve2: shutdown returned %v", err)
			}
			tk.WaitUntil("await-serve2-return", func() bool { return ret2.Load() }, time.Now().Add(2*time.Second))
			if _, err := ln2.Dial(); err != nil {
				obs.DialAfter = "refused"
			} else {
				obs.DialAfter = "accepted"
			}
		})
	}
	if sc.AddrCaller {
		s.Go("addr-caller", true, func(tk *Task) {
			if tk.WaitUntil("await-serving", ln.AnyAccepted, time.Now().Add(time.Second)) != Ready {
				return
			}
			_ = srv.Addr()
		})
	}
	for ci := range sc.Clients {
		ci := ci
		plan := &sc.Clients[ci]
		s.Go(fmt.Sprintf("cli%d", ci), false, func(tk *Task) {
			if plan.Delay > 0 && tk.Sleep("connect-delay", plan.Delay) == Drained {
				return
			}
			cl, err := ln.Dial()
			if err != nil {
				out.ClientSaw[ci] = "refused"
				return
			}
			out.ClientConn[ci] = cl
			out.ClientSaw[ci] = "open"
			tmp := make([]byte, 512)
			recv := &out.ClientRecv[ci]
			parsedOff, parsedFrames := 0, 0
			countFrames := func() int { // complete reply frames received so far (as SplitTCPStream counts them, incrementally)
				for {
					b := (*recv)[parsedOff:]
					if len(b) < 7 {
						break
					}
					l := int(binary.BigEndian.Uint16(b[4:]))
					if len(b) < 6+l || l < 2 {
						break
					}
					parsedOff += 6 + l
					parsedFrames++
				}
				return parsedFrames
			}
			read := func(d time.Duration, want int) string {
				deadline := time.Now().Add(d)
				for {
					if want > 0 && countFrames() >= want {
						return "ok"
					}
					cl.SetReadDeadline(deadline)
					n, err := cl.Read(tmp)
					*recv = append(*recv, tmp[:n]...)
					if err != nil {
						if errors.Is(err, os.ErrDeadlineExceeded) {
							return "timeout"
						}
						if errors.Is(err, io.EOF) {
							out.ClientSaw[ci] = "eof"
						} else {
							out.ClientSaw[ci] = "closed"
						}
						return "closed"
					}
				}
			}
			sentReqs := 0
			for _, op := range plan.Ops {
				if out.ClientSaw[ci] != "open" {
					return
				}
				switch op.Kind {
				case "req":
					if op.Cut > 0 {
						if _, err := cl.Write(op.Frame[:op.Cut]); err != nil {
							return
						}
						if tk.Sleep("frag-gap", op.Gap) == Drained {
							return
						}
						if _, err := cl.Write(op.Frame[op.Cut:]); err != nil {
							return
						}
					} else if _, err := cl.Write(op.Frame); err != nil {
						return
					}
					sentReqs++
					read(op.Work+300*time.Millisecond, sentReqs)
				case "idle":
					if tk.Sleep("idle", op.Gap) == Drained {
						return
					}
				case "close":
					out.ClientSaw[ci] = "closed_by_client"
					cl.Close()
					return
				case "hold":
					// stay connected and idle until the server closes the connection (or 3 simulated seconds pass)
					if sc.LongSession {
						read(31*time.Second, 0)
					} else {
						read(3*time.Second, 0)
					}
				}
			}
		})
	}
	s.Run()
	_ = actionDone
	out.Hang, out.OverStep = s.Hang, s.OverStep
	// server-side view when the scenario is over, before the simulation is torn down
	for _, c := range out.ClientConn {
		out.SrvClosedAtEnd = append(out.SrvClosedAtEnd, c != nil && c.peer.IsClosed())
	}
	s.Drain()
	out.Panics = s.Panics
	rc.finishFrom(s)
	return out
}

func runC17(rc *RunCtx) {
	t := rc.Scen
	sc := genC17(t)
	sc.Race = rc.Race
	seed := uint64(t.Choose(1 << 30))
	out := runLife(rc, sc, seed)
	rc.Nontrivial = len(sc.Clients) > 0
	rc.Desc = map[string]any{"callbacks(OnServe,OnError,OnAccept,OnClose)": fmt.Sprintf("%04b", sc.Callbacks), "action": sc.Action, "action_at": sc.ActionAt.String(),
		"shutdown_ctx": sc.ShutdownCtx.String(), "clients": describeLifeClients(sc), "reject_every": sc.RejectEvery, "server_read_timeout": sc.ReadTimeout.String()}
	cb := fmt.Sprintf("cb=%04b", sc.Callbacks)
	rc.Probe(fmt.Sprintf("%s|%s", cb, sc.Action))
	if sc.Epoch {
		rc.Probe("one_connection_answered_more_than_65000_times")
	}
	if sc.ManyClients {
		rc.Probe(fmt.Sprintf("many_clients|%d", bucket(len(sc.Clients))))
	}
	{
		nclose, nhold, npanic, ncut, nslow := 0, 0, 0, 0, 0
		for _, c := range sc.Clients {
			for _, op := range c.Ops {
				switch op.Kind {
				case "close":
					nclose++
				case "hold":
					nhold++
				case "req":
					if op.Panic {
						npanic++
					}
					if op.Cut > 0 {
						ncut++
					}
					if op.Work > 0 {
						nslow++
					}
				}
			}
		}
		rc.Fault("lifecycle:"+sc.Action+"|trigger="+sc.Trigger, out.ShutdownDone || out.Cancelled)
		if sc.Second != "" {
			rc.Fault("second_lifecycle_call:"+sc.Second, out.Second != nil || sc.Second == "cancel")
		}
		if nclose > 0 {
			rc.Fault("client_disconnects", true)
		}
		if nhold > 0 {
			rc.Fault("client_keeps_connection_open", true)
		}
		if npanic > 0 {
			rc.Fault("handler_panics", true)
		}
		if ncut > 0 {
			rc.Fault("request_in_two_writes", true)
		}
		if nslow > 0 {
			rc.Fault("handler_still_working_at_shutdown_possible", true)
		}
		if sc.RejectEvery > 0 {
			rej := false
			for _, a := range out.Accepts {
				rej = rej || a.Rejected
			}
			rc.Fault("accept_callback_rejects", rej)
		}
		if sc.WriteDelay > 0 {
			rc.Fault("slow_server_writes", out.WritesBegun > 0)
		}
	}
	if rc.Race {
		for _, p := range out.Panics {
			rc.Violate("panic", "task="+p.Task, "panic in task %s: %s", p.Task, p.Value)
		}
		return // no functional oracle in race mode
	}
	checkC17(rc, sc, out, seed)
}

func describeLifeClients(sc *lifeScenario) []string {
	var out []string
	for _, c := range sc.Clients {
		s := fmt.Sprintf("delay=%v:", c.Delay)
		for i, op := range c.Ops {
			if i >= 12 && i < len(c.Ops)-3 {
				if i == 12 {
					s += fmt.Sprintf(" ...(%d operations in all)", len(c.Ops))
				}
				continue
			}
			switch op.Kind {
			case "req":
				s += fmt.Sprintf(" req(tid%d,cut%d,work%v,panic=%v)", op.TID, op.Cut, op.Work, op.Panic)
			case "idle":
				s += fmt.Sprintf(" idle(%v)", op.Gap)
			default:
				s += " " + op.Kind
			}
		}
		out = append(out, s)
	}
	return out
}

func checkC17(rc *RunCtx, sc *lifeScenario, out *lifeOutcome, seed uint64) {
	cb := fmt.Sprintf("cb=%04b", sc.Callbacks)
	phase := "idle"
	if len(sc.Clients) > 0 {
		phase = "clients"
	}
	if out.ServeCalled > 0 && sc.ActionAt <= sc.OnServeWork {
		phase = "during_onserve"
	}
	for _, p := range out.Panics {
		rc.Violate("panic", fmt.Sprintf("task=%s|action=%s|phase=%s", p.Task, sc.Action, phase), "panic in task %s: %s\n%s", p.Task, p.Value, firstRepoFrames(p.Stack))
	}
	if len(out.Panics) > 0 {
		return
	}
	if out.Hang || out.OverStep {
		rc.Violate("hang", "phase="+phase, "the scenario did not come to an end: hang=%v (nothing can make progress), overstep=%v (step budget exhausted: something polls without end)", out.Hang, out.OverStep)
		return
	}
	// --- accounting told to the accept callback ---
	for _, a := range out.Accepts {
		if sc.SameAddr {
			break // which server-side connections are closed cannot be attributed through the callbacks' argument
		}
		lo := uint64(1 + a.Adds - a.Closed)
		if a.Adds-a.Closed < 0 {
			lo = 1
		}
		gone := max(a.Untracked, a.CloseCBs) // unregistered, or already reported closed to the application
		hi := uint64(1 + a.Adds - gone)
		if a.Count < lo || a.Count > hi {
			rc.Violate("count_out_of_bounds", cb, "OnAcceptConnFunc for %s was told connectionCount=%d; %d connections had been tracked before it, %d server-side closes and %d completed untracks had happened: the true count (this one included) lies in [%d,%d]",
				a.Remote, a.Count, a.Adds, a.Closed, a.Untracked, lo, hi)
			break
		}
	}
	// --- rejected connections are closed; close callback exactly once per accepted connection ---
	rejected := map[string]bool{}
	accepted := map[string]bool{}
	for _, a := range out.Accepts {
		if a.Rejected {
			rejected[a.Remote] = true
		} else {
			accepted[a.Remote] = true
		}
	}
	for i, c := range out.ClientConn {
		if c == nil || sc.SameAddr {
			continue
		}
		name := c.Name
		if rejected[name] && !out.SrvClosedAtEnd[i] {
			rc.Violate("rejected_not_closed", cb, "connection %s (client %d) was rejected by OnAcceptConnFunc but its server end was never closed", name, i)
		}
	}
	if sc.Callbacks&8 != 0 {
		// Every connection the server accepted (and did not reject) gets exactly one close callback. A connection that
		// came out of Accept only after the serve context had been cancelled or Shutdown had begun may instead be
		// turned away (closed, no callbacks at all).
		endStep := 1 << 60
		if out.Cancelled {
			endStep = out.CancelStep
		}
		if out.ShutdownStartStep > 0 && out.ShutdownStartStep < endStep {
			endStep = out.ShutdownStartStep
		}
		if sc.SameAddr {
			// totals: as many close callbacks as connections the accept callback let in, none twice over
			nacc, nclosecb := 0, out.CloseCB["pipe"]
			for _, a := range out.Accepts {
				if !a.Rejected {
					nacc++
				}
			}
			late := 0
			for _, sv := range outServerConns(out) {
				if sv.acceptStep >= endStep {
					late++
				}
			}
			if sc.Callbacks&4 != 0 && (nclosecb > nacc || nclosecb < nacc-late) {
				rc.Violate("close_cb_count", fmt.Sprintf("%s|same_remote_addr", cb), "%d connections were let in by OnAcceptConnFunc (%d of all came out of Accept after serving had begun to end), OnCloseConnFunc was called %d times", nacc, late, nclosecb)
			}
		}
		for _, sv := range outServerConns(out) {
			if sc.SameAddr {
				break
			}
			remote := sv.peer.Name
			if !sv.acceptedByServer || rejected[remote] {
				continue
			}
			n := out.CloseCB[remote]
			late := sv.acceptStep >= endStep
			if n == 1 || (late && n == 0 && sv.closed && !accepted[remote]) {
				continue
			}
			rc.Violate("close_cb_count", fmt.Sprintf("%s|n=%d|late_accept=%v", cb, min(n, 2), late), "OnCloseConnFunc was called %d times for accepted connection %s by the end of the drained run (server end closed=%v)", n, remote, sv.closed)
			break
		}
	}
	// --- graceful shutdown (every Shutdown call that returned nil carries the same obligations) ---
	type sd struct {
		label   string
		retStep int
		at      time.Duration
	}
	var sds []sd
	if out.ShutdownDone && out.ShutdownErr == nil {
		sds = append(sds, sd{"shutdown", out.ShutdownRetStep, out.ShutdownAt})
	}
	if out.Second != nil && out.Second.Err == nil {
		sds = append(sds, sd{"second_shutdown", out.Second.Step, out.Second.At})
	}
	for _, d := range sds {
		after := "|after=" + d.label
		if !out.ServeRet {
			rc.Violate("serve_not_returned", cb+after, "%s returned nil at %v but Serve had not returned by the end of the scenario (no further external event)", d.label, d.at)
		} else if !errors.Is(out.ServeErr, server.ErrServerClosed) {
			rc.Violate("serve_wrong_error", cb+after, "%s returned nil; Serve returned %v, not ErrServerClosed", d.label, out.ServeErr)
		}
		if d.label == "shutdown" && out.LateDialTried && !out.DialRefusedAfter {
			rc.Violate("accepting_after_shutdown", cb, "a connection attempt after a successful Shutdown was not refused")
		}
		// connections must be closed by the server
		for i, c := range out.ClientConn {
			if c == nil || out.ClientSaw[i] == "closed_by_client" {
				continue
			}
			sv := c.peer
			if !sv.acceptedByServer {
				continue // still in the listener's backlog when it was closed: reset by the simulated stack
			}
			if !out.SrvClosedAtEnd[i] {
				rc.Violate("idle_conn_open_after_shutdown", cb+after, "%s returned nil but the server end of %s was still open when the scenario ended, seconds later (client %d saw %q)", d.label, c.Name, i, out.ClientSaw[i])
				break
			}
		}
		// every request whose handler had started before this Shutdown returned has its complete reply written
		for ci, cl := range sc.Clients {
			c := out.ClientConn[ci]
			if c == nil {
				continue
			}
			var wrote []byte // what the server had written to this client when the call returned
			for _, r := range c.peer.Rec {
				if r.Kind == "write" && r.Err == nil && r.Step <= d.retStep {
					wrote = append(wrote, r.Data...)
				}
			}
			found := map[string]bool{}
			for _, op := range cl.Ops {
				if op.Kind != "req" || op.Panic {
					continue
				}
				st, started := out.HandlerStart[op.TID]
				if !started || st > d.retStep {
					continue
				}
				if out.ClientSaw[ci] == "closed_by_client" {
					continue
				}
				if out.Aborted[op.TID] && out.AppCancelled {
					continue // the application itself cancelled the serve context: the handler was told to stop
				}
				want := lifeModelReply(seed, op.Frame)
				ok, known := found[string(want)]
				if !known {
					ok = bytes.Contains(wrote, want)
					found[string(want)] = ok
				}
				if !ok {
					rc.Violate("inflight_reply_lost", cb+after, "handler for request tid %d had started (step %d) before %s returned nil (step %d) but its complete reply %x had not been written to the client by then (written: %x)",
						op.TID, st, d.label, d.retStep, trunc(want, 24), trunc(wrote, 48))
					break
				}
			}
		}
	}
	if out.ShutdownDone && out.ShutdownErr != nil {
		rc.Probe("shutdown_returned_error")
	}
	// --- the same Server value serving a second time ---
	if o := out.Serve2; o != nil && o.Started {
		how := "how=" + sc.SecondServe
		if !bytes.Equal(o.Reply, o.Want) {
			rc.Violate("second_serving_no_reply", how, "the second serving of the same Server answered %x to a request whose reply is %x", o.Reply, o.Want)
		}
		switch sc.SecondServe {
		case "cancel":
			if !o.Returned || o.RetAt-o.EndAt > time.Second {
				rc.Violate("cancel_not_honoured", "phase=second_serving", "the second serving's context was cancelled at %v; Serve returned=%v at %v", o.EndAt, o.Returned, o.RetAt)
			}
		case "shutdown":
			if o.ShutdownReturned && o.ShutdownErr == nil {
				if !o.Returned {
					rc.Violate("serve_not_returned", cb+"|second_serving", "Shutdown returned nil but the second Serve call had not returned 2 simulated seconds later")
				} else if !errors.Is(o.Err, server.ErrServerClosed) {
					rc.Violate("serve_wrong_error", cb+"|second_serving", "the second Serve returned %v after a successful Shutdown", o.Err)
				}
				if o.DialAfter == "accepted" {
					rc.Violate("listener_open_after_shutdown", cb+"|second_serving", "after Shutdown returned nil the second listener still took a connection")
				}
			}
		}
		rc.Fault("second_serving:"+sc.SecondServe, true)
	}
	// --- cancellation of the serve context ---
	if out.Cancelled {
		if !out.ServeRet {
			rc.Violate("cancel_not_honoured", "phase="+phase, "serve context cancelled at %v; Serve had not returned 2 simulated seconds later", out.CancelAt)
		} else if out.ServeRetAt-out.CancelAt > time.Second {
			rc.Violate("cancel_not_honoured", "phase="+phase, "serve context cancelled at %v; Serve returned only at %v", out.CancelAt, out.ServeRetAt)
		}
	}
}

func outServerConns(out *lifeOutcome) []*Conn {
	var r []*Conn
	for _, c := range out.ClientConn {
		if c != nil {
			r = append(r, c.peer)
		}
	}
	return r
}

func firstRepoFrames(stack string) string {
	var keep []string
	lines := bytes.Split([]byte(stack), []byte("\n"))
	for i, l := range lines {
		if bytes.Contains(l, []byte("go-modbus-client")) || bytes.Contains(l, []byte("/repo/")) {
			keep = append(keep, string(l))
			if i+1 < len(lines) {
				keep = append(keep, string(lines[i+1]))
			}
		}
		if len(keep) > 8 {
			break
		}
	}
	out := ""
	for _, k := range keep {
		out += k + "\n"
	}
	return out
}
