package sim

// Scenario family `readers` and C13 — reading values out of a response never changes it.

import (
	"bytes"
	"context"
	"errors"
	"fmt"
	"strings"
	"sync"
	"time"

	modbus "github.com/aldas/go-modbus-client"
	"github.com/aldas/go-modbus-client/packet"
)

func init() {
	Register(&Property{ID: "C13", Run: runC13, Strata: strataC13})
}

var c13OpNames = []string{"Bit", "Byte", "Uint8", "Int8", "Uint16", "Int16", "Uint32", "Uint32WithByteOrder", "Int32", "Int32WithByteOrder", "Uint64", "Uint64WithByteOrder",
	"Int64", "Int64WithByteOrder", "Float32", "Float32WithByteOrder", "Float64", "Float64WithByteOrder", "String", "StringWithByteOrder", "Register", "DoubleRegister", "QuadRegister",
	"ExtractFieldsStrict", "ExtractFieldsLenient", "FieldExtractFrom"}

// strata: framing x fc x first operation kind: first draws of genC13.
func strataC13(tier string) [][]int32 {
	var out [][]int32
	for fr := 0; fr < 2; fr++ {
		for fn := 0; fn < 2; fn++ {
			for op := range c13OpNames {
				out = append(out, []int32{int32(fr), int32(fn), int32(op)})
			}
		}
	}
	return out
}

type rdOp struct {
	Kind  int
	Off   int // register offset from the window start (may point outside)
	Bit   uint8
	High  bool
	Len   uint8
	Order packet.ByteOrder
	Field []modbus.Field         // ExtractFields
	Breq  *modbus.BuilderRequest // non-nil: the extraction goes through this builder-made request (Fields replaced by Field)
	View  int                    // long histories: 1 = the reader makes a new view of the response for this read, 2 = it goes back to its first view
}

func (o rdOp) String() string {
	return fmt.Sprintf("%s(off=%d,bit=%d,high=%v,len=%d,order=%d,fields=%v)", c13OpNames[o.Kind], o.Off, o.Bit, o.High, o.Len, o.Order, o.Field)
}

func genRdOp(t *Tape, kind int, start, qty int, server string, unit byte) rdOp {
	o := rdOp{Kind: kind}
	o.Off = t.Choose(qty+2) - 1
	if t.Chance(3, 4) {
		o.Off = t.Choose(qty)
	}
	o.Bit = uint8(t.Choose(16))
	o.High = t.Choose(2) == 1
	o.Len = uint8(1 + t.Choose(min(250, 2*qty+2)))
	o.Order = byteOrders[t.Choose(len(byteOrders))]
	if kind == 25 {
		f := genRegField(t, start+t.Choose(qty), 0)
		f.ServerAddress, f.UnitID = server, unit
		if int(f.Address) < start {
			f.Address = uint16(start)
		}
		if (f.Type == modbus.FieldTypeUint16 || f.Type == modbus.FieldTypeInt16) && t.Chance(1, 2) {
			f.ByteOrder = byteOrders[t.Choose(len(byteOrders))]
		}
		o.Field = []modbus.Field{f}
		return o
	}
	if kind >= 23 {
		n := 1 + t.Choose(6)
		for i := 0; i < n; i++ {
			f := genRegField(t, start+t.Choose(qty), i)
			f.ServerAddress, f.UnitID = server, unit
			// keep fields inside or slightly beyond the window
			if int(f.Address) < start {
				f.Address = uint16(start)
			}
			if i > 0 && t.Chance(1, 4) {
				f.Address = o.Field[len(o.Field)-1].Address // several definitions over one register (bits of a status word)
			}
			if (f.Type == modbus.FieldTypeUint16 || f.Type == modbus.FieldTypeInt16) && t.Chance(1, 3) {
				// a byte order on a 16-bit definition: whatever it means for that field, it is that field's business only
				f.ByteOrder = byteOrders[t.Choose(len(byteOrders))]
			}
			o.Field = append(o.Field, f)
			if t.Chance(1, 8) {
				o.Field = append(o.Field, o.Field[t.Choose(len(o.Field))]) // the same definition listed twice
			}
			if t.Chance(1, 6) {
				// a coil field in the list of a register request: not extractable from registers, and no reason to disturb the others
				o.Field = append(o.Field, modbus.Field{Name: fmt.Sprintf("coil%d", i), ServerAddress: server, UnitID: unit, Type: modbus.FieldTypeCoil, Address: uint16(start + t.Choose(qty))})
			}
		}
	}
	return o
}

// applyRdOp performs the read on regs (a view of resp) and renders the outcome as a comparable string.
func renderFieldValues(vals []modbus.FieldValue, e error) string {
	s := ""
	for _, fv := range vals {
		s += fmt.Sprintf("[%s=%#v err=%v]", fv.Field.Name, fv.Value, fv.Error != nil)
	}
	return fmt.Sprintf("%s err=%v", s, e != nil)
}

func applyRdOp(regs *packet.Registers, resp packet.Response, start int, o rdOp, held *[]modbus.FieldValue) string {
	a := uint16(start + o.Off)
	var v any
	var err error
	switch o.Kind {
	case 0:
		v, err = regs.Bit(a, o.Bit)
	case 1:
		v, err = regs.Byte(a, o.High)
	case 2:
		v, err = regs.Uint8(a, o.High)
	case 3:
		v, err = regs.Int8(a, o.High)
	case 4:
		v, err = regs.Uint16(a)
	case 5:
		v, err = regs.Int16(a)
	case 6:
		v, err = regs.Uint32(a)
	case 7:
		v, err = regs.Uint32WithByteOrder(a, o.Order)
	case 8:
		v, err = regs.Int32(a)
	case 9:
		v, err = regs.Int32WithByteOrder(a, o.Order)
	case 10:
		v, err = regs.Uint64(a)
	case 11:
		v, err = regs.Uint64WithByteOrder(a, o.Order)
	case 12:
		v, err = regs.Int64(a)
	case 13:
		v, err = regs.Int64WithByteOrder(a, o.Order)
	case 14:
		var f float32
		f, err = regs.Float32(a)
		v = fmt.Sprintf("%x", f)
	case 15:
		var f float32
		f, err = regs.Float32WithByteOrder(a, o.Order)
		v = fmt.Sprintf("%x", f)
	case 16:
		var f float64
		f, err = regs.Float64(a)
		v = fmt.Sprintf("%x", f)
	case 17:
		var f float64
		f, err = regs.Float64WithByteOrder(a, o.Order)
		v = fmt.Sprintf("%x", f)
	case 18:
		v, err = regs.String(a, o.Len)
	case 19:
		v, err = regs.StringWithByteOrder(a, o.Len, o.Order)
	case 20:
		v, err = regs.Register(a)
	case 21:
		v, err = regs.DoubleRegister(a, o.Order)
	case 22:
		v, err = regs.QuadRegister(a, o.Order)
	case 25:
		// one field definition decoded from the caller's own Registers view (AsRegisters + Field.ExtractFrom)
		if len(o.Field) == 0 {
			return "no field"
		}
		f := o.Field[0]
		v, err = f.ExtractFrom(regs)
	case 23, 24:
		br := modbus.BuilderRequest{StartAddress: uint16(start), Fields: o.Field}
		if o.Breq != nil {
			br = *o.Breq // the request value as the builder made it (and whatever it carries besides the public fields)
			br.StartAddress, br.Fields = uint16(start), o.Field
		}
		vals, e := br.ExtractFields(resp, o.Kind == 24)
		if held != nil {
			*held = vals
		}
		return renderFieldValues(vals, e)
	}
	out := fmt.Sprintf("%#v err=%v", v, err != nil)
	if b, ok := v.([]byte); ok && o.Kind >= 20 && o.Kind <= 22 && o.Bit%2 == 1 {
		// the register accessors hand out the caller's own copy of the bytes: the caller goes on to use it as scratch
		// memory (reverses it for display, masks it); that is no business of the response's
		for i := range b {
			b[i] ^= 0xFF
		}
	}
	return out
}

func parseRegsResponse(fr Framing, frame []byte) (packet.Response, error) {
	if fr == TCP {
		return packet.ParseTCPResponse(frame)
	}
	return packet.ParseRTUResponseWithCRC(frame)
}

type regsResponse interface {
	packet.Response
	AsRegisters(requestStartAddress uint16) (*packet.Registers, error)
}

func runC13(rc *RunCtx) {
	t := rc.Scen
	fr := Framing(t.Choose(2))
	fc := []byte{3, 4}[t.Choose(2)]
	firstKind := t.Choose(len(c13OpNames))
	qty := 1 + t.Pick(3, 3, 2)*8 + t.Choose(8)
	if t.Chance(1, 8) {
		qty = 100 + t.Choose(26)
	}
	start := int(t.U16())
	if start+qty > 65536 {
		start = 65536 - qty
	}
	unit := byte(1 + t.Choose(3))
	server := "plc-a:502"
	devSeed := uint64(t.Choose(1 << 30))
	nreaders := 1 + t.Choose(4)
	// a long history: one response is read some hundred times (a value cache, a display refreshing itself), through
	// views made again and again, with strings of every position and length
	marathon := t.Chance(1, 150)
	if marathon {
		nreaders = 1 + t.Choose(2)
		if t.Chance(1, 2) {
			qty = []int{64, 125, 32, 100}[t.Choose(4)]
			if start+qty > 65536 {
				start = 65536 - qty
			}
		}
	}
	readers := make([][]rdOp, nreaders)
	for r := range readers {
		n := 1 + t.Choose(12)
		if marathon && r == 0 {
			n = 280 + t.Choose(500)
		}
		for i := 0; i < n; i++ {
			kind := t.Choose(len(c13OpNames))
			if r == 0 && i == 0 {
				kind = firstKind
			}
			// strings and extraction are where rearranging happens: over-weight them
			if t.Chance(1, 4) || (marathon && t.Chance(1, 2)) {
				kind = []int{18, 19, 19, 23, 24}[t.Choose(5)]
			}
			op := genRdOp(t, kind, start, qty, server, unit)
			if marathon {
				op.View = []int{0, 1, 1, 1, 2, 0}[t.Choose(6)]
			}
			readers[r] = append(readers[r], op)
			if t.Chance(1, 4) {
				readers[r] = append(readers[r], op) // the same read again
				i++
			}
		}
	}
	// In a third of the runs the extraction ops go through one request value made by the request builder, its field
	// list permuted from op to op: whatever such a request carries along must not connect one extraction with another.
	if t.Chance(1, 3) {
		var bf modbus.Fields
		for i := 0; i < 2+t.Choose(5); i++ {
			f := genRegField(t, start+t.Choose(qty), i)
			f.ServerAddress, f.UnitID = server, unit
			if int(f.Address) < start || int(f.Address)+refFieldRegs(f) > start+qty {
				continue
			}
			bf = append(bf, f)
		}
		if len(bf) >= 2 {
			b := modbus.NewRequestBuilder(server, unit).AddAll(bf)
			var reqs []modbus.BuilderRequest
			var err error
			switch {
			case fc == 3 && fr == TCP:
				reqs, err = b.ReadHoldingRegistersTCP()
			case fc == 3:
				reqs, err = b.ReadHoldingRegistersRTU()
			case fr == TCP:
				reqs, err = b.ReadInputRegistersTCP()
			default:
				reqs, err = b.ReadInputRegistersRTU()
			}
			if err == nil && len(reqs) == 1 {
				breq := reqs[0]
				for r := range readers {
					for i := range readers[r] {
						if o := &readers[r][i]; o.Kind == 23 || o.Kind == 24 {
							fs := append([]modbus.Field(nil), breq.Fields...)
							rot := t.Choose(len(fs))
							fs = append(fs[rot:], fs[:rot]...)
							if t.Choose(2) == 1 {
								for a, z := 0, len(fs)-1; a < z; a, z = a+1, z-1 {
									fs[a], fs[z] = fs[z], fs[a]
								}
							}
							o.Field, o.Breq = fs, &breq
						}
					}
				}
				rc.Probe("extraction_through_builder_made_request")
			}
		}
	}
	// the default byte order of the views is configured once, before any read (WithByteOrder is a setter on the view)
	viewOrder := packet.ByteOrder(0)
	if t.Choose(3) == 0 {
		viewOrder = byteOrders[t.Choose(len(byteOrders))]
	}
	sharedView := t.Choose(2) == 0 // readers share one *Registers, or each makes its own view of the shared response
	sigBase := fmt.Sprintf("fc%d|%s", fc, fr)
	rc.Desc = map[string]any{"framing": fr.String(), "function": fc, "start": start, "quantity": qty, "readers": nreaders, "shared_registers_view": sharedView, "ops_reader0": fmt.Sprint(readers[0][:min(len(readers[0]), 16)]), "reads_by_reader0": len(readers[0])}
	rc.Nontrivial = true
	for _, ops := range readers {
		for _, o := range ops {
			rc.Probe("op|" + c13OpNames[o.Kind])
			rc.Shape("%d/%d/%d", o.Kind, o.Order, bucket(o.Off+1))
		}
		rc.Shape("|")
	}
	rc.Shape("%s|q=%d|shared=%v|vo=%d", sigBase, bucket(qty), sharedView, viewOrder)

	s := NewSim(rc.Sched)
	s.Tracing = rc.Tracing
	s.Free = rc.Race
	if marathon {
		rc.Probe("one_response_read_hundreds_of_times")
		s.MaxSteps = 400000
	}
	defer s.Activate()()
	dn := NewDevNet(s, devSeed)
	dn.ASCIIEvery = []int{2, 1, 4}[t.Choose(3)]
	dn.SpecialEvery = []int{0, 3, 2}[t.Choose(3)]
	var resp packet.Response
	var snapshot []byte
	var fetchErr error
	var shared *packet.Registers
	type obs struct {
		reader, idx int
		op          rdOp
		got         string
		changed     string // payload differed from the snapshot right after this call
		held        []modbus.FieldValue
		heldErr     bool
	}
	var mu sync.Mutex
	var observed []obs
	var ready bool
	s.Go("fetcher", false, func(tk *Task) {
		var rsp packet.Response
		var snap []byte
		var view *packet.Registers
		err := func() error {
			cl := netClient(dn, fr, 100*time.Millisecond)
			if err := cl.Connect(context.Background(), server); err != nil {
				return err
			}
			defer cl.Close()
			req, err := BuildLibRequest(Req{FC: fc, Addr: uint16(start), Qty: uint16(qty)}, unit, 21, fr)
			if err != nil {
				return err
			}
			rsp, err = cl.Do(context.Background(), req)
			if err != nil {
				return err
			}
			if isNilResponse(rsp) {
				return fmt.Errorf("nil response")
			}
			snap = append([]byte(nil), rsp.Bytes()...)
			view, err = rsp.(regsResponse).AsRegisters(uint16(start))
			if err == nil && viewOrder != 0 {
				view = view.WithByteOrder(viewOrder)
			}
			return err
		}()
		mu.Lock()
		resp, snapshot, shared, fetchErr = rsp, snap, view, err
		ready = true
		mu.Unlock()
	})
	for r := range readers {
		r := r
		s.Go(fmt.Sprintf("reader%d", r), false, func(tk *Task) {
			if tk.WaitUntil("await-response", func() bool { mu.Lock(); defer mu.Unlock(); return ready }, time.Now().Add(time.Second)) != Ready {
				return
			}
			if fetchErr != nil {
				return
			}
			view := shared
			if !sharedView {
				v, err := resp.(regsResponse).AsRegisters(uint16(start))
				if err != nil {
					return
				}
				if viewOrder != 0 {
					v = v.WithByteOrder(viewOrder)
				}
				view = v
			}
			firstView := view
			for i, o := range readers[r] {
				if tk.Yield("before-read") == Drained {
					return
				}
				switch o.View {
				case 1:
					if v, err := resp.(regsResponse).AsRegisters(uint16(start)); err == nil {
						if viewOrder != 0 {
							v = v.WithByteOrder(viewOrder)
						}
						view = v
					}
				case 2:
					view = firstView
				}
				var heldVals []modbus.FieldValue
				if !rc.Race && o.Bit%4 == 3 {
					logLine(resp) // the application logs the response (and the view) between two reads
					logLine(view)
				}
				got := applyRdOp(view, resp, start, o, &heldVals)
				if rc.Race {
					continue // no functional oracle (and no shared harness state) in race mode
				}
				ch := ""
				if now := resp.Bytes(); !bytes.Equal(now, snapshot) {
					ch = fmt.Sprintf("%x", trunc(now, 40))
				}
				mu.Lock()
				observed = append(observed, obs{r, i, o, got, ch, heldVals, strings.HasSuffix(got, "err=true")})
				mu.Unlock()
			}
		})
	}
	s.Run()
	hang := s.Hang || s.OverStep
	s.Drain()
	rc.finishFrom(s)
	for _, p := range s.Panics {
		rc.Violate("panic", sigBase+"|task="+taskKind(p.Task), "panic in %s: %s\n%s", p.Task, p.Value, firstRepoFrames(p.Stack))
	}
	if len(s.Panics) > 0 || rc.Race {
		return
	}
	if hang {
		rc.Violate("hang", sigBase, "run did not finish")
		return
	}
	if fetchErr != nil {
		rc.Violate("fetch_failed", sigBase, "could not obtain the response: %v", fetchErr)
		return
	}
	// every result equals what the same call returns on a fresh private copy of the snapshot
	seen := map[string]string{}
	for _, ob := range observed {
		name := c13OpNames[ob.op.Kind]
		if ob.changed != "" {
			rc.Violate("payload_changed", fmt.Sprintf("%s|after=%s|order_be=%v", sigBase, name, ob.op.Order&packet.BigEndian != 0 || ob.op.Order == 0),
				"after reader %d's call #%d %v the response re-encodes to %s..., on arrival it was %x...", ob.reader, ob.idx, ob.op, ob.changed, trunc(snapshot, 40))
			return
		}
		fresh, err := parseRegsResponse(fr, append([]byte(nil), snapshot...))
		if err != nil {
			rc.Violate("fetch_failed", sigBase, "snapshot does not parse: %v", err)
			return
		}
		fregs, _ := fresh.(regsResponse).AsRegisters(uint16(start))
		if fregs != nil && viewOrder != 0 {
			fregs = fregs.WithByteOrder(viewOrder)
		}
		want := applyRdOp(fregs, fresh, start, ob.op, nil)
		if ob.op.Kind == 23 || ob.op.Kind == 24 {
			// a field's value must not depend on which other fields are extracted with it, nor on their order:
			// expected = every field extracted alone, each from its own private copy
			want = ""
			anyErr := false
			for _, f := range ob.op.Field {
				one, _ := parseRegsResponse(fr, append([]byte(nil), snapshot...))
				br := modbus.BuilderRequest{StartAddress: uint16(start), Fields: []modbus.Field{f}}
				vals, e := br.ExtractFields(one, true)
				if e != nil {
					anyErr = true
				}
				for _, fv := range vals {
					want += fmt.Sprintf("[%s=%#v err=%v]", fv.Field.Name, fv.Value, fv.Error != nil)
				}
			}
			if ob.op.Kind == 23 && anyErr {
				want = "" // strict extraction fails as a whole
			}
			want = fmt.Sprintf("%s err=%v", want, anyErr)
		}
		if ob.op.Kind == 23 || ob.op.Kind == 24 {
			// what is compared is which (definition, value, failed) triples were reported: the order in which a list comes
			// back and whether a definition listed twice is reported twice are not what this property is about; that identical
			// calls return identical results is checked on the exact rendering below
			if sameTokenSet(ob.got, want) {
				want = ob.got
			}
		}
		if ob.got != want {
			rc.Violate("result_depends_on_history", fmt.Sprintf("%s|op=%s", sigBase, name),
				"reader %d call #%d %v returned %s; on a fresh private copy of the same response it returns %s", ob.reader, ob.idx, ob.op, trunc([]byte(ob.got), 120), trunc([]byte(want), 120))
			return
		}
		key := ob.op.String()
		if prev, ok := seen[key]; ok && prev != ob.got {
			rc.Violate("result_changed_on_repeat", fmt.Sprintf("%s|op=%s", sigBase, name), "%v returned %s and later %s", ob.op, prev, ob.got)
			return
		}
		seen[key] = ob.got
	}
	// results handed out earlier still say what they said when they were returned
	for _, ob := range observed {
		if (ob.op.Kind == 23 || ob.op.Kind == 24) && ob.held != nil {
			var e error
			if ob.heldErr {
				e = errors.New("failed")
			}
			if now := renderFieldValues(ob.held, e); now != ob.got {
				rc.Violate("earlier_result_changed", fmt.Sprintf("%s|op=%s", sigBase, c13OpNames[ob.op.Kind]),
					"the values returned by reader %d call #%d %v read %s when returned and %s after later extractions", ob.reader, ob.idx, ob.op, trunc([]byte(ob.got), 120), trunc([]byte(now), 120))
				return
			}
		}
	}
}

// sameTokenSet: two renderings of field-value lists report the same set of [name=value err] triples and the same overall error flag.
func sameTokenSet(a, b string) bool {
	split := func(s string) (map[string]bool, string) {
		i := strings.LastIndex(s, " err=")
		if i < 0 {
			return nil, s
		}
		m := map[string]bool{}
		for _, tok := range strings.SplitAfter(s[:i], "]") {
			if tok != "" {
				m[tok] = true
			}
		}
		return m, s[i:]
	}
	ma, ea := split(a)
	mb, eb := split(b)
	if ea != eb || len(ma) != len(mb) {
		return false
	}
	for k := range ma {
		if !mb[k] {
			return false
		}
	}
	return true
}
