package sim

// Worker: one OS process executes many runs, each inside its own synctest
// bubble, and writes a JSON summary. Driven by /verif/bin/check through
// environment variables (see DESIGN.md §10).

import (
	"encoding/binary"
	"encoding/json"
	"fmt"
	"os"
	"runtime/debug"
	"runtime/pprof"
	"strconv"
	"strings"
	"sync/atomic"
	"testing"
	"testing/synctest"
	"time"
)

type ReplayFile struct {
	Property  string         `json:"property"`
	Class     string         `json:"class"`
	Sig       string         `json:"sig"`
	Msg       string         `json:"msg"`
	Seed      uint64         `json:"seed"`
	Index     int            `json:"index"`
	Tier      string         `json:"tier"`
	Scen      []int32        `json:"scenario_tape"`
	Sched     []int32        `json:"schedule_tape"`
	Hash      string         `json:"event_log_hash"`
	Desc      map[string]any `json:"scenario,omitempty"`
	Trace     []string       `json:"trace,omitempty"`
	Minimised bool           `json:"minimised"`
	OrigLen   [2]int         `json:"original_tape_lengths"`
	Crash     bool           `json:"process_crash,omitempty"`
}

type VioAgg struct {
	Sig    string      `json:"sig"`
	Class  string      `json:"class"`
	Msg    string      `json:"msg"`
	Count  int         `json:"count"`
	Known  bool        `json:"known"`
	Replay *ReplayFile `json:"replay,omitempty"`
}

type WorkerOut struct {
	Property     string             `json:"property"`
	Worker       int                `json:"worker"`
	Runs         int                `json:"runs"`
	Skipped      int                `json:"skipped"`
	SweepSize    int                `json:"sweep_size"`
	SweepRuns    int                `json:"sweep_runs"`
	Nontrivial   int                `json:"nontrivial_runs"`
	Steps        int64              `json:"steps"`
	SimNS        int64              `json:"sim_ns"`
	WallS        float64            `json:"wall_s"`
	Violations   map[string]*VioAgg `json:"violations"`
	Faults       map[string]int     `json:"faults"`
	Probes       map[string]int     `json:"probes"`
	Samples      []map[string]any   `json:"samples"`
	Rechecks     int                `json:"determinism_rechecks"`
	Infra        []string           `json:"infra"`
	FPFile       string             `json:"fp_file"`
	ReplayResult *ReplayResult      `json:"replay_result,omitempty"`
}

type ReplayResult struct {
	Reproduced bool     `json:"reproduced"`
	SameHash   bool     `json:"same_hash"`
	Classes    []string `json:"classes"`
	Sigs       []string `json:"sigs"`
	Msgs       []string `json:"msgs"`
	Hash       string   `json:"hash"`
	Trace      []string `json:"trace"`
}

type knownEntry struct {
	Property string   `json:"property"`
	ID       string   `json:"id"`
	Sigs     []string `json:"sigs"`
	What     string   `json:"what"`
}

func globMatch(pat, s string) bool {
	// '*' matches any run of characters
	parts := strings.Split(pat, "*")
	if len(parts) == 1 {
		return pat == s
	}
	if !strings.HasPrefix(s, parts[0]) {
		return false
	}
	s = s[len(parts[0]):]
	for i := 1; i < len(parts)-1; i++ {
		j := strings.Index(s, parts[i])
		if j < 0 {
			return false
		}
		s = s[j+len(parts[i]):]
	}
	return strings.HasSuffix(s, parts[len(parts)-1])
}

func loadKnown(path string) []knownEntry {
	if path == "" {
		return nil
	}
	b, err := os.ReadFile(path)
	if err != nil {
		return nil
	}
	var f struct {
		Findings []knownEntry `json:"findings"`
	}
	if err := json.Unmarshal(b, &f); err != nil {
		fmt.Fprintln(os.Stderr, "known findings unreadable:", err)
		os.Exit(2)
	}
	return f.Findings
}

func isKnown(known []knownEntry, sig string) bool {
	for _, k := range known {
		for _, g := range k.Sigs {
			if globMatch(g, sig) {
				return true
			}
		}
	}
	return false
}

var heartbeat atomic.Int64 // unix nanos (real clock) of the last run start; 0 = idle

func startWatchdog(limit time.Duration) {
	go func() {
		for {
			time.Sleep(time.Second)
			hb := heartbeat.Load()
			if hb != 0 && time.Since(time.Unix(0, hb)) > limit {
				fmt.Fprintf(os.Stderr, "WATCHDOG: a run exceeded %v of wall time\n", limit)
				if os.Getenv("VERIF_WATCHDOG_DUMP") != "" {
					pprof.Lookup("goroutine").WriteTo(os.Stderr, 2)
				}
				os.Exit(3)
			}
		}
	}()
}

// execRun runs one simulated execution in its own bubble.
func execRun(t *testing.T, p *Property, rc *RunCtx) {
	defer func() {
		if r := recover(); r != nil {
			msg := fmt.Sprint(r)
			if strings.Contains(msg, "blocked goroutines remain") || strings.Contains(msg, "deadlock") {
				// leftover goroutines of the code under test after Drain: not a verdict by itself
				rc.Probe("bubble_leftover_goroutines")
				return
			}
			rc.Infra = "panic in harness: " + msg + "\n" + string(debug.Stack())
		}
	}()
	synctest.Test(t, func(t *testing.T) {
		p.Run(rc)
	})
	for _, f := range rc.PostBubble {
		f()
	}
	rc.PostBubble = nil
	for _, tok := range rc.FPTokens {
		rc.FP = (rc.FP ^ HashString(tok)) * 1099511628211
	}
	rc.FPTokens = nil
}

func newRC(p *Property, tier string, scen, sched *Tape, tracing bool) *RunCtx {
	return &RunCtx{Prop: p.ID, Tier: tier, Scen: scen, Sched: sched, Tracing: tracing, Race: os.Getenv("VERIF_MODE") == "race"}
}

func replayOnce(t *testing.T, p *Property, tier string, scen, sched []int32, tracing bool) *RunCtx {
	rc := newRC(p, tier, ReplayTape(scen), ReplayTape(sched), tracing)
	execRun(t, p, rc)
	return rc
}

// hasSig finds a violation with exactly this defect-level signature.
func hasSig(rc *RunCtx, sig string) *Violation {
	for i := range rc.Violations {
		if rc.Violations[i].Sig == sig {
			return &rc.Violations[i]
		}
	}
	return nil
}

// minimise shrinks both tapes while a violation with the same signature persists.
func minimise(t *testing.T, p *Property, tier, sig string, scen, sched []int32, budget int) ([]int32, []int32, int) {
	tries := 0
	began := time.Now()
	wall := time.Duration(envInt("VERIF_MIN_WALL_S", 40)) * time.Second
	test := func(a, b []int32) bool {
		if tries >= budget {
			return false
		}
		if time.Since(began) > wall {
			// long scenarios (histories of hundreds of exchanges) shrink slowly: whatever has been reached is reported
			tries = budget
			return false
		}
		tries++
		heartbeat.Store(time.Now().UnixNano()) // each attempt is a run of its own for the wall-clock watchdog
		rc := replayOnce(t, p, tier, a, b, false)
		return rc.Infra == "" && hasSig(rc, sig) != nil
	}
	shrink := func(cur []int32, other []int32, isScen bool) []int32 {
		try := func(c []int32) bool {
			if isScen {
				return test(c, other)
			}
			return test(other, c)
		}
		// trailing zeros are implicit
		trim := func(c []int32) []int32 {
			for len(c) > 0 && c[len(c)-1] == 0 {
				c = c[:len(c)-1]
			}
			return c
		}
		cur = trim(cur)
		for chunk := len(cur); chunk >= 1; chunk /= 2 {
			for i := 0; i+chunk <= len(cur); {
				c := append(append([]int32{}, cur[:i]...), cur[i+chunk:]...)
				if try(c) {
					cur = trim(c)
				} else {
					i += chunk
				}
				if tries >= budget {
					return cur
				}
			}
		}
		for i := 0; i < len(cur); i++ {
			if cur[i] == 0 {
				continue
			}
			c := append([]int32{}, cur...)
			c[i] = 0
			if try(c) {
				cur = c
				continue
			}
			for v := cur[i] / 2; v > 0 && v < cur[i]; v = (v + cur[i]) / 2 {
				c := append([]int32{}, cur...)
				c[i] = v
				if try(c) {
					cur = c
					break
				}
				if cur[i]-v <= 1 {
					break
				}
			}
			if tries >= budget {
				break
			}
		}
		return trim(cur)
	}
	for round := 0; round < 3; round++ {
		n0 := len(scen) + len(sched)
		s0 := sum32(scen) + sum32(sched)
		sched = shrink(sched, scen, false)
		scen = shrink(scen, sched, true)
		if len(scen)+len(sched) == n0 && sum32(scen)+sum32(sched) == s0 {
			break
		}
	}
	return scen, sched, tries
}

func sum32(a []int32) int64 {
	var s int64
	for _, v := range a {
		s += int64(v)
	}
	return s
}

func envInt(name string, def int) int {
	if v := os.Getenv(name); v != "" {
		n, err := strconv.Atoi(v)
		if err == nil {
			return n
		}
	}
	return def
}

func TestWorker(t *testing.T) {
	propID := os.Getenv("VERIF_PROP")
	if propID == "" {
		t.Skip("VERIF_PROP not set")
	}
	p := Registry[propID]
	if p == nil {
		fmt.Fprintln(os.Stderr, "unknown property", propID)
		os.Exit(2)
	}
	tier := os.Getenv("VERIF_TIER")
	if tier == "" {
		tier = "quick"
	}
	outPath := os.Getenv("VERIF_OUT")
	wo := &WorkerOut{Property: propID, Violations: map[string]*VioAgg{}, Faults: map[string]int{}, Probes: map[string]int{}}
	writeOut := func() {
		b, _ := json.Marshal(wo)
		if outPath != "" {
			os.WriteFile(outPath, b, 0o644)
		} else {
			os.Stdout.Write(b)
		}
	}
	startWatchdog(time.Duration(envInt("VERIF_WATCHDOG_S", 120)) * time.Second)

	if rp := os.Getenv("VERIF_REPLAY"); rp != "" {
		b, err := os.ReadFile(rp)
		if err != nil {
			fmt.Fprintln(os.Stderr, err)
			os.Exit(2)
		}
		var rf ReplayFile
		if err := json.Unmarshal(b, &rf); err != nil {
			fmt.Fprintln(os.Stderr, err)
			os.Exit(2)
		}
		heartbeat.Store(time.Now().UnixNano())
		rc := replayOnce(t, p, rf.Tier, rf.Scen, rf.Sched, true)
		heartbeat.Store(0)
		rr := &ReplayResult{Hash: fmt.Sprintf("%016x", rc.Hash), Trace: rc.Trace}
		for _, v := range rc.Violations {
			rr.Classes = append(rr.Classes, v.Class)
			rr.Sigs = append(rr.Sigs, v.Sig)
			rr.Msgs = append(rr.Msgs, v.Msg)
			if v.Sig == rf.Sig {
				rr.Reproduced = true
			}
		}
		rr.SameHash = rr.Hash == rf.Hash
		if rc.Infra != "" {
			wo.Infra = append(wo.Infra, rc.Infra)
		}
		wo.ReplayResult = rr
		writeOut()
		return
	}

	base := uint64(envInt("VERIF_SEED", 1))
	worker := envInt("VERIF_WORKER", 0)
	nworkers := envInt("VERIF_NWORKERS", 1)
	budget := time.Duration(envInt("VERIF_BUDGET_S", 10)) * time.Second
	maxRuns := envInt("VERIF_MAXRUNS", 1<<30)
	minRuns := envInt("VERIF_MINRUNS", 0)
	known := loadKnown(os.Getenv("VERIF_KNOWN"))
	var journal *os.File
	if jp := os.Getenv("VERIF_JOURNAL"); jp != "" {
		journal, _ = os.OpenFile(jp, os.O_CREATE|os.O_WRONLY|os.O_TRUNC, 0o644)
	}
	wo.Worker = worker
	var hashLog *os.File
	if hp := os.Getenv("VERIF_HASHLOG"); hp != "" {
		hashLog, _ = os.Create(hp)
		defer hashLog.Close()
	}
	var strata [][]int32
	if p.Strata != nil {
		strata = p.Strata(tier)
	}
	var sweep []Stratum
	if p.Sweep != nil {
		sweep = p.Sweep(tier)
	}
	wo.SweepSize = len(sweep)
	fps := map[uint64]struct{}{}
	propHash := HashString(propID)
	wallStart := time.Now()
	minimised := 0
	var jbuf []byte
	first := worker
	if v := envInt("VERIF_START_INDEX", -1); v >= 0 {
		first = v
	}
	only := envInt("VERIF_ONLY_INDEX", -1)
	if only >= 0 {
		first, maxRuns, minRuns = only, only+1, 1
	}
	for i := first; i < maxRuns; i += nworkers {
		if time.Since(wallStart) > budget && (i-first)/nworkers >= minRuns && i >= len(sweep) {
			break
		}
		seed := Mix(base, propHash, uint64(i))
		mk := func() (*Tape, *Tape) {
			scen := NewTape(Mix(seed, 1, 1))
			if i < len(sweep) {
				scen.Force(sweep[i].Prefix)
				scen.Named = sweep[i].Named
			} else if len(strata) > 0 && i%2 == 0 {
				scen.Force(strata[(i/2)%len(strata)])
			}
			return scen, NewTape(Mix(seed, 2, 2))
		}
		if journal != nil {
			jbuf = fmt.Appendf(jbuf[:0], "START %d %d\n", i, seed)
			journal.Write(jbuf)
		}
		scen, sched := mk()
		rc := newRC(p, tier, scen, sched, false)
		heartbeat.Store(time.Now().UnixNano())
		execRun(t, p, rc)
		heartbeat.Store(0)
		wo.Runs++
		if i < len(sweep) {
			wo.SweepRuns++
		}
		if hashLog != nil {
			fmt.Fprintf(hashLog, "%d %016x %d %d\n", i, rc.Hash, len(rc.Violations), rc.Steps)
		}
		if rc.Infra != "" {
			wo.Infra = append(wo.Infra, fmt.Sprintf("run %d seed %d: %s", i, seed, rc.Infra))
			if len(wo.Infra) > 5 {
				break
			}
			continue
		}
		wo.Steps += int64(rc.Steps)
		wo.SimNS += int64(rc.SimTime)
		for k, v := range rc.Faults {
			wo.Faults[k] += v
		}
		for k, v := range rc.Probes {
			wo.Probes[k] += v
		}
		if rc.Desc == nil {
			wo.Skipped++
		}
		if rc.Nontrivial {
			wo.Nontrivial++
			fps[rc.FP] = struct{}{}
		}
		if rc.Desc != nil && len(wo.Samples) < 3 && (rc.Nontrivial || wo.Runs > 50) {
			d := rc.Desc
			d["run_index"] = i
			d["steps"] = rc.Steps
			d["sim_time"] = rc.SimTime.String()
			wo.Samples = append(wo.Samples, d)
		}
		// determinism re-execution of ~1% of the runs
		if i%97 == 0 && os.Getenv("VERIF_MODE") != "race" {
			scen2, sched2 := mk()
			rc2 := newRC(p, tier, scen2, sched2, false)
			heartbeat.Store(time.Now().UnixNano())
			execRun(t, p, rc2)
			heartbeat.Store(0)
			wo.Rechecks++
			if (rc2.Hash != rc.Hash || len(rc2.Violations) != len(rc.Violations)) && len(wo.Infra) < 5 {
				wo.Infra = append(wo.Infra, fmt.Sprintf("NONDETERMINISM run %d seed %d: hash %016x vs %016x", i, seed, rc.Hash, rc2.Hash))
			}
		}
		for _, v := range rc.Violations {
			agg := wo.Violations[v.Sig]
			if agg == nil {
				agg = &VioAgg{Sig: v.Sig, Class: v.Class, Msg: v.Msg, Known: isKnown(known, v.Sig)}
				wo.Violations[v.Sig] = agg
			}
			agg.Count++
			if agg.Replay == nil && (!agg.Known || os.Getenv("VERIF_REPLAY_KNOWN") != "") && minimised >= 4 && len(wo.Violations) < 200 {
				// quota of minimisations used up: keep the unminimised tapes so that the violation is still replayable
				orig := replayOnce(t, p, tier, scen.Rec, sched.Rec, true)
				agg.Replay = &ReplayFile{Property: propID, Class: v.Class, Sig: v.Sig, Msg: v.Msg, Seed: seed, Index: i, Tier: tier,
					Scen: append([]int32{}, scen.Rec...), Sched: append([]int32{}, sched.Rec...), Hash: fmt.Sprintf("%016x", orig.Hash),
					Desc: orig.Desc, Trace: orig.Trace, OrigLen: [2]int{len(scen.Rec), len(sched.Rec)}}
			}
			if agg.Replay == nil && (!agg.Known || os.Getenv("VERIF_REPLAY_KNOWN") != "") && minimised < 4 {
				minimised++
				rf := &ReplayFile{Property: propID, Class: v.Class, Sig: v.Sig, Msg: v.Msg, Seed: seed, Index: i, Tier: tier,
					Scen: append([]int32{}, scen.Rec...), Sched: append([]int32{}, sched.Rec...)}
				rf.OrigLen = [2]int{len(rf.Scen), len(rf.Sched)}
				heartbeat.Store(time.Now().UnixNano())
				ms, md, _ := minimise(t, p, tier, v.Sig, rf.Scen, rf.Sched, envInt("VERIF_MIN_BUDGET", 1500))
				heartbeat.Store(time.Now().UnixNano())
				fin := replayOnce(t, p, tier, ms, md, true)
				heartbeat.Store(0)
				if fv := hasSig(fin, v.Sig); fv != nil && fin.Infra == "" {
					rf.Scen, rf.Sched, rf.Minimised = ms, md, true
					rf.Msg, rf.Sig = fv.Msg, fv.Sig
					rf.Hash = fmt.Sprintf("%016x", fin.Hash)
					rf.Desc, rf.Trace = fin.Desc, fin.Trace
				} else {
					orig := replayOnce(t, p, tier, rf.Scen, rf.Sched, true)
					rf.Hash = fmt.Sprintf("%016x", orig.Hash)
					rf.Desc, rf.Trace = orig.Desc, orig.Trace
				}
				agg.Replay = rf
			}
		}
	}
	wo.WallS = time.Since(wallStart).Seconds()
	if outPath != "" {
		wo.FPFile = outPath + ".fps"
		buf := make([]byte, 0, 8*len(fps))
		for k := range fps {
			buf = binary.LittleEndian.AppendUint64(buf, k)
		}
		os.WriteFile(wo.FPFile, buf, 0o644)
	}
	writeOut()
}
