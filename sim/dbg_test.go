package sim

import (
	"fmt"
	"os"
	"testing"
)

// TestDebug runs one indexed run of a property with tracing and prints everything (development aid).
func TestDebug(t *testing.T) {
	propID := os.Getenv("DBG_PROP")
	if propID == "" {
		t.Skip()
	}
	p := Registry[propID]
	base := uint64(envInt("VERIF_SEED", 1))
	want := os.Getenv("DBG_SIG")
	for i := envInt("DBG_FROM", 0); i < envInt("DBG_TO", 100000); i++ {
		seed := Mix(base, HashString(propID), uint64(i))
		scen := NewTape(Mix(seed, 1, 1))
		if p.Sweep != nil && i < len(p.Sweep("quick")) {
			sw := p.Sweep("quick")
			scen.Force(sw[i].Prefix)
			scen.Named = sw[i].Named
		} else if p.Strata != nil && i%2 == 0 {
			st := p.Strata("quick")
			scen.Force(st[(i/2)%len(st)])
		}
		rc := newRC(p, "quick", scen, NewTape(Mix(seed, 2, 2)), true)
		execRun(t, p, rc)
		hit := false
		for _, v := range rc.Violations {
			if want == "" || v.Sig == want {
				hit = true
			}
		}
		if rc.Infra != "" {
			fmt.Println("INFRA", rc.Infra)
			return
		}
		if os.Getenv("DBG_DUMP") != "" {
			// print the trace of exactly this run (for diffing two executions)
			fmt.Printf("HASH %016x\n", rc.Hash)
			for _, l := range rc.Trace {
				fmt.Println("  ", l)
			}
			return
		}
		if hit {
			fmt.Println("run", i, rc.Desc)
			for _, l := range rc.Trace {
				fmt.Println("  ", l)
			}
			for _, v := range rc.Violations {
				fmt.Println("VIOL", v.Sig, v.Msg)
			}
			return
		}
	}
}
