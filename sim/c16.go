package sim

// C16 — every server reply is a well-formed ADU addressed to the request it answers.

import (
	"bytes"
	"context"
	"errors"
	"fmt"
	"time"

	"github.com/aldas/go-modbus-client/packet"
	"github.com/aldas/go-modbus-client/server"
)

func init() {
	Register(&Property{ID: "C16", Run: runC16, Strata: strataC16})
}

var c16Classes = []string{"valid", "unsupported_fc", "out_of_range", "short_body", "bytecount_mismatch", "length_extreme"}

// strata: first draws of genC16: nconn-1, tid base, subject nreq pick, then per request: class, handler mode, fc index.
func strataC16(tier string) [][]int32 {
	var out [][]int32
	for cl := range c16Classes {
		for hm := 0; hm < len(handlerModeNames); hm++ {
			for fc := range AllFCs {
				out = append(out, []int32{0, 7, 0, int32(cl), int32(hm), int32(fc)})
			}
		}
	}
	return out
}

func supportedFC(fc byte) bool {
	for _, f := range AllFCs {
		if f == fc {
			return true
		}
	}
	return false
}

// genC16Req draws one request frame of the given class with valid MBAP framing.
func genC16Req(t *Tape, class string, fcIdx int, unit byte, tid uint16) SrvReq {
	fc := AllFCs[fcIdx%len(AllFCs)]
	r := SrvReq{FC: fc, TID: tid, Unit: unit, Class: class}
	u16 := func(v int) []byte { return []byte{byte(v >> 8), byte(v)} }
	var pdu []byte
	switch class {
	case "valid":
		q := GenLegalReq(t, fc)
		pdu = q.PDU()
	case "unsupported_fc":
		var unsup []byte
		for c := 1; c <= 127; c++ {
			if !supportedFC(byte(c)) {
				unsup = append(unsup, byte(c))
			}
		}
		fc = unsup[t.Choose(len(unsup))]
		r.FC = fc
		n := 4 + t.Choose(8)
		pdu = append([]byte{fc}, t.Bytes(n)...)
	case "out_of_range":
		bad := func(max int) int {
			switch t.Choose(4) {
			case 0:
				return 0
			case 1:
				return max + 1
			case 2:
				return 0xFFFF
			default:
				return max + 1 + t.Choose(65535-max)
			}
		}
		a := int(t.U16())
		switch fc {
		case 1, 2:
			pdu = append(append([]byte{fc}, u16(a)...), u16(bad(2000))...)
		case 3, 4:
			pdu = append(append([]byte{fc}, u16(a)...), u16(bad(125))...)
		case 5:
			v := 1 + t.Choose(0xFFFE)
			if v == 0xFF00 {
				v = 0xFF01
			}
			pdu = append(append([]byte{fc}, u16(a)...), u16(v)...)
		case 15:
			q := bad(1968)
			bc := 1 + t.Choose(4)
			pdu = append(append(append([]byte{fc}, u16(a)...), u16(q)...), byte(bc))
			pdu = append(pdu, t.Bytes(bc)...)
		case 16:
			q := bad(123)
			bc := 2 * (1 + t.Choose(3))
			pdu = append(append(append([]byte{fc}, u16(a)...), u16(q)...), byte(bc))
			pdu = append(pdu, t.Bytes(bc)...)
		case 23:
			rq, wq := 1+t.Choose(5), 1+t.Choose(3)
			if t.Choose(2) == 0 {
				rq = bad(125)
			} else {
				wq = bad(121)
			}
			bc := 2 * (1 + t.Choose(3))
			pdu = append(append(append(append([]byte{fc}, u16(a)...), u16(rq)...), u16(a)...), u16(wq)...)
			pdu = append(append(pdu, byte(bc)), t.Bytes(bc)...)
		default: // fc 6 and 17 have no out-of-range arguments: fall back to a valid request
			r.Class = "valid"
			pdu = GenLegalReq(t, fc).PDU()
		}
	case "short_body":
		full := GenLegalReq(t, fc).PDU()
		if len(full) <= 2 {
			r.Class = "valid"
			pdu = full
		} else {
			pdu = full[:2+t.Choose(len(full)-2)] // at least fc + 1 byte, shorter than the function needs; the length field stays consistent
			if len(pdu) < 2 {
				pdu = full[:2]
			}
		}
	case "length_extreme":
		// the length field claims far more than is (ever) sent: the server has to wait for the rest, not answer
		pdu = GenLegalReq(t, fc).PDU()
		if len(pdu) > 5 {
			pdu = pdu[:5]
		}
		r.Frame = FrameTCP(tid, unit, pdu)
		l := []int{0xFFFF, 0xFFFE, 0xFFFD, 0xFFFC, 0xFFFB, 0xFFFA, 0x8000, 0x7FFF, 300, 261, 255, 254}[t.Choose(12)]
		r.Frame[4], r.Frame[5] = byte(l>>8), byte(l)
		return r
	case "bytecount_mismatch":
		switch fc {
		case 15, 16, 23:
			q := GenLegalReq(t, fc)
			pdu = q.PDU()
			idx := 5
			if fc == 23 {
				idx = 9
			}
			pdu[idx] ^= byte(1 + t.Choose(255))
		default:
			// extra trailing bytes after a fixed-size request, length field consistent with the longer frame
			pdu = append(GenLegalReq(t, fc).PDU(), t.Bytes(1+t.Choose(4))...)
			if fc == 17 {
				r.Class = "valid"
				pdu = []byte{17}
			}
		}
	}
	r.Frame = FrameTCP(tid, unit, pdu)
	return r
}

func genC16(t *Tape) (*SrvScenario, int) {
	sc := &SrvScenario{}
	nconn := 1 + t.Pick(4, 3, 3)
	tidBase := 1 + t.Choose(60000)
	subject := 0
	for ci := 0; ci < nconn; ci++ {
		plan := SrvConnPlan{}
		nreq := 1 + t.Pick(3, 3, 2, 1, 1)
		for ri := 0; ri < nreq; ri++ {
			tid := uint16(tidBase + ci*16 + ri)
			var r SrvReq
			if ci == subject {
				class := c16Classes[t.Pick(6, 4, 4, 4, 4, 1)]
				mode := HandlerMode(t.Pick(4, 2, 1, 2, 2, 1, 2, 2))
				r = genC16Req(t, class, t.Choose(len(AllFCs)), byte(1+ci), tid)
				r.Mode = mode
				r.Code = []byte{4, 1, 2, 3, 6, 10}[t.Choose(6)]
				r.Work = time.Duration(1+t.Choose(60)) * time.Millisecond
			} else {
				r = genC16Req(t, "valid", t.Choose(len(AllFCs)), byte(1+ci), tid)
				if t.Chance(1, 4) {
					r.Mode = HSlow
					r.Work = time.Duration(1+t.Choose(30)) * time.Millisecond
				}
			}
			plan.Reqs = append(plan.Reqs, r)
			if r.Class == "length_extreme" {
				// nothing can follow on this connection: the server is (rightly) waiting for the announced bytes
				plan.Writes = append(plan.Writes, len(r.Frame))
				plan.Gaps = append(plan.Gaps, 0)
				break
			}
			if len(r.Frame) > 1 && t.Chance(1, 3) {
				// the frame arrives in two pieces (the cut inside the header or inside the body)
				c := 1 + t.Choose(len(r.Frame)-1)
				if t.Chance(1, 2) && len(r.Frame) > 8 {
					c = 8 + t.Choose(len(r.Frame)-8)
				}
				plan.Writes = append(plan.Writes, c, len(r.Frame)-c)
				g2 := time.Duration(t.Choose(8000)) * time.Microsecond
				if t.Chance(1, 10) {
					g2 = time.Duration(1200+t.Choose(2500)) * time.Millisecond // a slow sender: seconds between the two pieces (far below the idle limit)
				}
				plan.Gaps = append(plan.Gaps, time.Duration(t.Choose(3))*time.Millisecond, g2)
			} else {
				plan.Writes = append(plan.Writes, len(r.Frame))
				plan.Gaps = append(plan.Gaps, time.Duration(t.Choose(3))*time.Millisecond)
			}
		}
		sc.Conns = append(sc.Conns, plan)
	}
	if t.Chance(1, 150) {
		// a crowd: some 70-130 further clients connect one after the other, send one valid request and hang up without
		// waiting for the reply (their handlers are still at work then, some of them panic); the connections generated
		// above come after them and must be served as if nothing had happened
		crowd := 66 + t.Choose(64)
		for k := 0; k < crowd; k++ {
			ci := len(sc.Conns)
			r := genC16Req(t, "valid", t.Choose(len(AllFCs)), byte(1+ci), uint16(tidBase+ci*16))
			switch t.Choose(4) {
			case 0:
				r.Mode = HPanic
			case 1, 2:
				r.Mode, r.Work = HSlow, time.Duration(1+t.Choose(10))*time.Millisecond
			}
			sc.Conns = append(sc.Conns, SrvConnPlan{Reqs: []SrvReq{r}, Writes: []int{len(r.Frame)}, Gaps: []time.Duration{0}, Pipelined: true, AbortMid: true,
				StartDelay: time.Duration(k)*500*time.Microsecond + time.Duration(t.Choose(700))*time.Microsecond})
		}
		for ci := 0; ci < nconn; ci++ {
			sc.Conns[ci].StartDelay = time.Duration(crowd)*500*time.Microsecond + time.Duration(20+t.Choose(60))*time.Millisecond
		}
		sc.LongPauses = true
	}
	if nconn > 1 && t.Chance(1, 6) {
		// the subject connection dies in the middle of a frame; the others connect only afterwards
		sp := &sc.Conns[subject]
		sp.Reqs = sp.Reqs[:1]
		k := 1 + t.Choose(len(sp.Reqs[0].Frame)-1)
		sp.Reqs[0].Frame = sp.Reqs[0].Frame[:k]
		sp.Reqs[0].Class = "partial_then_close"
		sp.Writes, sp.Gaps, sp.AbortMid, sp.Pipelined = []int{k}, []time.Duration{0}, true, true
		for ci := range sc.Conns {
			if ci != subject {
				sc.Conns[ci].StartDelay = time.Duration(10+t.Choose(60)) * time.Millisecond
			}
		}
	}
	if !sc.Conns[subject].AbortMid && t.Chance(1, 8) {
		// The subject sends its requests early: two (or three) in one write, one more a little later. Only frames that are
		// complete and consistent in length are used (valid, unsupported function, out-of-range), so the stream stays in step;
		// handlers may fail or panic. Checked on the stream as a whole (who is answered, how often, in which order).
		sp := &sc.Conns[subject]
		var keep []SrvReq
		for _, r := range sp.Reqs {
			if r.Class == "valid" || r.Class == "unsupported_fc" || r.Class == "out_of_range" {
				keep = append(keep, r)
			}
		}
		if len(keep) >= 2 {
			sp.Reqs = keep
			first := len(keep[0].Frame) + len(keep[1].Frame)
			rest := 0
			for _, r := range keep[2:] {
				rest += len(r.Frame)
			}
			sp.Writes, sp.Gaps, sp.Pipelined = []int{first}, []time.Duration{0}, true
			if rest > 0 {
				sp.Writes = append(sp.Writes, rest)
				sp.Gaps = append(sp.Gaps, time.Duration(1+t.Choose(20))*time.Millisecond)
			}
			sc.ReadTimeout = []time.Duration{0, time.Millisecond, 20 * time.Millisecond}[t.Choose(3)]
			sc.TimeoutWithData, sc.OwnAssembler = t.Choose(6) == 5, t.Choose(4) == 0
			sc.ReplyTimeout = 300 * time.Millisecond
			sc.SharedHandlerErr = t.Choose(2) == 1
			sc.StatelessDevice = true
			return sc, subject
		}
	}
	if !sc.Conns[subject].AbortMid && t.Chance(1, 6) {
		// the subject client stops reading in the middle of one reply: the server's write times out after a partial delivery
		sc.Conns[subject].StallAtReply = 1 + t.Choose(len(sc.Conns[subject].Reqs))
	}
	sc.ReadTimeout = []time.Duration{0, time.Millisecond, 20 * time.Millisecond}[t.Choose(3)]
	sc.TimeoutWithData, sc.OwnAssembler = t.Choose(6) == 5, t.Choose(4) == 0
	sc.ReplyTimeout = 300 * time.Millisecond
	sc.SharedHandlerErr = t.Choose(2) == 1
	sc.StatelessDevice = true // replies are then a pure function of the request: history independence is exactly checkable
	return sc, subject
}

func runC16(rc *RunCtx) {
	t := rc.Scen
	sc, subject := genC16(t)
	devSeed := uint64(t.Choose(1 << 30))
	alone := t.Choose(len(sc.Conns[subject].Reqs))
	if rc.Race {
		// race mode: the scenario runs with free goroutines under the race detector; a data race or a crash ends the process
		sc.Race = true
		out := RunSrv(rc, sc, rc.Sched, devSeed, nil)
		rc.Nontrivial = true
		rc.Probe(fmt.Sprintf("race|conns=%d", len(sc.Conns)))
		for _, p := range out.Panics {
			rc.Violate("panic", "harness_task", "panic in %s: %s", p.Task, p.Value)
		}
		return
	}
	a := len(rc.Sched.Rec)
	out := RunSrv(rc, sc, rc.Sched, devSeed, nil)
	rec := append([]int32(nil), rc.Sched.Rec[a:]...)
	rc.Desc = describeSrv(sc)
	rc.Nontrivial = true
	subj := sc.Conns[subject]
	for _, r := range subj.Reqs {
		rc.Probe(fmt.Sprintf("%s|%s", r.Class, r.Mode))
		if r.Class != "valid" {
			rc.Fault("input:"+r.Class, true)
		}
	}
	handled := map[uint16]bool{}
	for _, tid := range out.Handled {
		handled[tid] = true
	}
	for _, r := range subj.Reqs {
		if r.Mode != HNormal {
			rc.Fault("handler:"+r.Mode.String(), handled[r.TID])
		}
	}
	if out.Hang || out.OverStep {
		rc.Violate("hang", "server_run", "the run did not come to an end: hang=%v (nothing can make progress), overstep=%v (step budget exhausted: something polls without end)", out.Hang, out.OverStep)
	}
	if out.HeldBad != "" {
		rc.Violate("request_changed_after_handling", "handler_kept_request", "%s", out.HeldBad)
	}
	if len(out.Panics) > 0 {
		rc.Violate("panic", "harness_task", "panic in %s: %s", out.Panics[0].Task, out.Panics[0].Value)
		return
	}

	// --- a reply cut short by a write timeout ends that connection: anything written after it could not be framed by the client ---
	if subj.StallAtReply > 0 && out.SubjectSrv != nil {
		cut := -1
		for i, r := range out.SubjectSrv.Rec {
			if r.Kind == "write" && r.Err != nil && r.N > 0 {
				cut = i
			} else if cut >= 0 && r.Kind == "write" && r.Err == nil && r.N > 0 {
				rc.Violate("write_after_truncated_reply", "subject", "reply #%d was cut short by a write timeout (%d bytes delivered), yet the server went on to write %x on the same connection", subj.StallAtReply, out.SubjectSrv.Rec[cut].N, trunc(r.Data, 16))
				break
			}
		}
		if cut >= 0 {
			rc.Fault("reply_write_timeout", true)
		} else {
			rc.Fault("reply_write_timeout", false)
		}
	}
	if subj.Pipelined && !subj.AbortMid {
		checkPipelinedSubject(rc, &subj, &out.Conns[subject], handled)
		return
	}
	// --- replies on the subject connection, request by request (lock-step) ---
	co := out.Conns[subject]
	if subj.StallAtReply > 0 {
		// the byte stream of this connection is truncated by the injected fault: per-reply checks stop before the stalled reply
		if n := subj.StallAtReply - 1; n < len(co.Status) {
			co.Status = co.Status[:n]
		}
	}
	afterMalformed := false
	prev := 0
	for k, r := range subj.Reqs {
		if k >= len(co.Status) {
			break
		}
		end := co.ReplyAfter[k]
		rk := co.Received[prev:end]
		prev = end
		sig := fmt.Sprintf("req=%s|handler=%s|after_malformed=%v", r.Class, r.Mode, afterMalformed)
		if !handled[r.TID] {
			sig = fmt.Sprintf("req=%s|handler=not_reached|after_malformed=%v", r.Class, afterMalformed)
		}
		st := co.Status[k]
		if st == "reply" || len(rk) > 0 {
			frames, rest := SplitTCPStream(rk)
			switch {
			case len(frames) == 0 || len(rest) > 0:
				rc.Violate("malformed_adu", sig, "request #%d %x answered with bytes that are not whole ADUs: %x", k, trunc(r.Frame, 16), trunc(rk, 24))
			case len(frames) > 1:
				rc.Violate("extra_reply", sig, "request #%d answered with %d frames: %x", k, len(frames), trunc(rk, 40))
			default:
				f := frames[0]
				tid, unit, pdu, ok := UnframeTCP(f)
				switch {
				case !ok:
					rc.Violate("malformed_adu", sig, "reply %x to request #%d is not a well-formed ADU", trunc(f, 24), k)
				case tid != r.TID:
					rc.Violate("wrong_tid", sig, "request #%d (%s fc %d) has tid %d, reply %x carries tid %d", k, r.Class, r.FC, r.TID, trunc(f, 16), tid)
				case unit != r.Unit:
					rc.Violate("wrong_unit", sig, "request #%d has unit %d, reply %x carries unit %d", k, r.Unit, trunc(f, 16), unit)
				case pdu[0]&0x80 != 0:
					if len(pdu) != 2 {
						rc.Violate("wrong_length", sig, "exception reply %x is %d bytes long, not 9", trunc(f, 16), len(f))
					} else if pdu[0] != r.FC|0x80 {
						rc.Violate("wrong_function", sig, "request #%d has function %d, exception reply carries function byte %#x", k, r.FC, pdu[0])
					} else if r.Class == "unsupported_fc" && pdu[1] != 1 {
						rc.Violate("wrong_code", sig, "unsupported function %d answered with exception code %d, not 01", r.FC, pdu[1])
					} else if r.Class == "out_of_range" && pdu[1] != 3 && (!handled[r.TID] || r.Mode == HNormal || r.Mode == HSlow) {
						rc.Violate("wrong_code", sig, "out-of-range request %x answered with exception code %d, not 03", trunc(r.Frame, 16), pdu[1])
					}
				case pdu[0] != r.FC:
					rc.Violate("wrong_function", sig, "request #%d has function %d, reply carries function %d", k, r.FC, pdu[0])
				case r.Class == "unsupported_fc":
					rc.Violate("wrong_code", sig, "unsupported function %d answered with a normal response %x", r.FC, trunc(f, 16))
				}
			}
		}
		if r.Class != "valid" {
			afterMalformed = true
		}
	}

	// --- other connections: exactly what they receive without the subject connection ---
	if len(sc.Conns) > 1 {
		tw := *sc
		tw.Conns = append([]SrvConnPlan(nil), sc.Conns...)
		tw.Conns[subject].Skip = true
		rcT := &RunCtx{Prop: rc.Prop, Tier: rc.Tier}
		twin := RunSrv(rcT, &tw, ReplayTape(rec), devSeed, nil)
		rc.Hash ^= rcT.Hash * 31
		rc.Steps += rcT.Steps
		for ci := range sc.Conns {
			if ci == subject {
				continue
			}
			if !bytes.Equal(out.Conns[ci].Received, twin.Conns[ci].Received) {
				rc.Violate("cross_connection_effect", "other_conn", "connection %d received %x with the faulty connection present and %x without it", ci, trunc(out.Conns[ci].Received, 40), trunc(twin.Conns[ci].Received, 40))
			}
			// and the bystanders' replies must be right in themselves (a client that hung up without reading has none)
			if sc.Conns[ci].AbortMid {
				continue
			}
			if cls, msg := checkReplySequence(sc.Conns[ci].Reqs, out.Conns[ci].Received); cls != "" {
				rc.Violate(cls, "bystander", "connection %d: %s", ci, msg)
			}
		}
	}

	// --- the assembler used directly (it is exported: applications with a transport of their own feed it their reads and
	// queue what it returns for a writer): a reply it has returned stays what it was while it handles the next read ---
	if t.Choose(3) == 0 {
		asm := &server.ModbusTCPAssembler{Handler: directHandler{dev: NewDevice(Mix(devSeed, 99, 7))}}
		var held, copies [][]byte
		for _, r := range subj.Reqs {
			if r.Class != "valid" && r.Class != "unsupported_fc" && r.Class != "out_of_range" {
				continue
			}
			reply, _ := asm.ReceiveRead(context.Background(), r.Frame, len(r.Frame))
			held = append(held, reply)
			copies = append(copies, append([]byte(nil), reply...))
		}
		for i := range held {
			if !bytes.Equal(held[i], copies[i]) {
				rc.Violate("returned_reply_changed", "assembler_used_directly", "the reply the assembler returned for read #%d was %x; after it handled the following reads the same slice reads %x", i, trunc(copies[i], 24), trunc(held[i], 24))
				break
			}
		}
		rc.Probe("assembler_used_directly")
	}

	// --- history independence: the reply to a frame does not depend on what else was on the connection ---
	if alone < len(co.Status) && subj.Reqs[alone].Mode != HPanic {
		one := &SrvScenario{ReadTimeout: sc.ReadTimeout, ReplyTimeout: sc.ReplyTimeout, StatelessDevice: true, SharedHandlerErr: sc.SharedHandlerErr}
		r := subj.Reqs[alone]
		one.Conns = []SrvConnPlan{{Reqs: []SrvReq{r}, Writes: []int{len(r.Frame)}, Gaps: []time.Duration{0}}}
		rcA := &RunCtx{Prop: rc.Prop, Tier: rc.Tier}
		solo := RunSrv(rcA, one, ReplayTape(nil), devSeed, nil)
		rc.Hash ^= rcA.Hash * 131
		rc.Steps += rcA.Steps
		start := 0
		if alone > 0 {
			start = co.ReplyAfter[alone-1]
		}
		inSeq := co.Received[start:co.ReplyAfter[alone]]
		// compare only when everything before it on the connection was answered or ignored cleanly (connection still open)
		openBefore := true
		for k := 0; k < alone; k++ {
			if co.Status[k] == "closed" {
				openBefore = false
			}
		}
		if openBefore && co.Status[alone] != "closed" && !bytes.Equal(inSeq, solo.Conns[0].Received) {
			before := "valid"
			for k := 0; k < alone; k++ {
				if subj.Reqs[k].Class != "valid" {
					before = "malformed"
				}
			}
			rc.Violate("history_dependent_reply", fmt.Sprintf("req=%s|before=%s", r.Class, before),
				"request %x sent alone is answered %x, as request #%d of its connection %x", trunc(r.Frame, 20), trunc(solo.Conns[0].Received, 24), alone, trunc(inSeq, 24))
		}
	}
}

// checkPipelinedSubject: everything the server sent on a connection whose client sent early is a sequence of whole ADUs,
// each addressed to one of that connection's requests, none answered twice, in request order; exception replies have the
// prescribed shape. (Whether every request is answered is C15's business; after a handler panic the connection may end.)
func checkPipelinedSubject(rc *RunCtx, subj *SrvConnPlan, co *SrvConnOut, handled map[uint16]bool) {
	frames, rest := SplitTCPStream(co.Received)
	if len(rest) > 0 {
		rc.Violate("malformed_adu", "pipelined", "the server's output ends in %d bytes that are no whole ADU: %x", len(rest), trunc(rest, 24))
	}
	next := 0
	for fi, f := range frames {
		tid, unit, pdu, ok := UnframeTCP(f)
		if !ok || len(pdu) == 0 {
			rc.Violate("malformed_adu", "pipelined", "frame #%d of the server's output is not a well-formed ADU: %x", fi, trunc(f, 24))
			return
		}
		k := -1
		for i, r := range subj.Reqs {
			if r.TID == tid {
				k = i
			}
		}
		switch {
		case k < 0:
			rc.Violate("wrong_tid", "pipelined|no_such_request", "frame #%d %x carries transaction id %d, which none of the %d requests of this connection has", fi, trunc(f, 16), tid, len(subj.Reqs))
			return
		case k < next:
			rc.Violate("extra_reply", "pipelined", "frame #%d %x answers request #%d (tid %d) again or out of order: requests up to #%d had already been answered", fi, trunc(f, 16), k, tid, next-1)
			return
		}
		r := subj.Reqs[k]
		next = k + 1
		sig := fmt.Sprintf("pipelined|req=%s|handler=%s", r.Class, r.Mode)
		switch {
		case unit != r.Unit:
			rc.Violate("wrong_unit", sig, "request #%d has unit %d, reply %x carries unit %d", k, r.Unit, trunc(f, 16), unit)
		case pdu[0]&0x80 != 0:
			if len(pdu) != 2 {
				rc.Violate("wrong_length", sig, "exception reply %x is %d bytes long, not 9", trunc(f, 16), len(f))
			} else if pdu[0] != r.FC|0x80 {
				rc.Violate("wrong_function", sig, "request #%d has function %d, exception reply carries function byte %#x", k, r.FC, pdu[0])
			} else if r.Class == "unsupported_fc" && pdu[1] != 1 {
				rc.Violate("wrong_code", sig, "unsupported function %d answered with exception code %d, not 01", r.FC, pdu[1])
			} else if r.Class == "out_of_range" && pdu[1] != 3 && (!handled[r.TID] || r.Mode == HNormal || r.Mode == HSlow) {
				rc.Violate("wrong_code", sig, "out-of-range request %x answered with exception code %d, not 03", trunc(r.Frame, 16), pdu[1])
			}
		case pdu[0] != r.FC:
			rc.Violate("wrong_function", sig, "request #%d has function %d, reply carries function %d", k, r.FC, pdu[0])
		case r.Class == "unsupported_fc":
			rc.Violate("wrong_code", sig, "unsupported function %d answered with a normal response %x", r.FC, trunc(f, 16))
		}
	}
	rc.Probe("pipelined_subject")
}

// directHandler answers from a reference device, without the simulator (for the assembler used outside a server).
type directHandler struct{ dev *Device }

func (h directHandler) Handle(ctx context.Context, req packet.Request) (packet.Response, error) {
	tid, unit, pdu, ok := UnframeTCP(req.Bytes())
	if !ok {
		return nil, errors.New("handler could not unframe the request it was given")
	}
	return rawResp{fc: req.FunctionCode(), b: FrameTCP(tid, unit, h.dev.Exec(pdu))}, nil
}
