package sim

import (
	"fmt"
	"os"
	"sort"
	"time"
)

// Violation is one observed breach of a property in one run.
type Violation struct {
	Prop  string `json:"prop"`
	Class string `json:"class"`
	Sig   string `json:"sig"` // defect-level signature: class + identifying parameters (all observed)
	Msg   string `json:"msg"`
}

// RunCtx carries everything one run reads and writes.
// forceScenario (VERIF_FORCE) makes the rare long scenario families the rule, for self-tests and timing.
var forceScenario = os.Getenv("VERIF_FORCE")

type RunCtx struct {
	Prop    string
	Tier    string
	Scen    *Tape // scenario tape (drawn first)
	Sched   *Tape // schedule tape (drawn while the run proceeds)
	Tracing bool
	Variant int  // scenario family variant (set by the property's stratifier)
	Race    bool // race mode: free-running goroutines under the race detector; no functional oracle
	longRun bool // the next RunC1 gets the step budget of a long history

	PostBubble []func() // run after the bubble has ended (e.g. checks that use real timers)
	FPTokens   []string // scenario-shape tokens folded into the distinctness fingerprint (input-dominated properties)

	Violations []Violation
	Hash       uint64
	FP         uint64
	Steps      int
	SimTime    time.Duration
	Nontrivial bool
	Faults     map[string]int // "<kind>.configured" / "<kind>.fired"
	Probes     map[string]int
	Desc       map[string]any // human-readable scenario description (for samples / replay files)
	Trace      []string
	Infra      string // non-empty: infrastructure trouble (never a violation)
}

func (rc *RunCtx) Violate(class, sig, format string, args ...any) {
	rc.Violations = append(rc.Violations, Violation{Prop: rc.Prop, Class: class, Sig: rc.Prop + "|" + class + "|" + sig, Msg: fmt.Sprintf(format, args...)})
}

func (rc *RunCtx) Probe(key string) {
	if rc.Probes == nil {
		rc.Probes = map[string]int{}
	}
	rc.Probes[key]++
}

func (rc *RunCtx) Fault(kind string, fired bool) {
	if rc.Faults == nil {
		rc.Faults = map[string]int{}
	}
	rc.Faults[kind+".configured"]++
	if fired {
		rc.Faults[kind+".fired"]++
	}
}

func (rc *RunCtx) finishFrom(s *Sim) {
	rc.Hash = s.Hash()
	rc.FP = s.Fingerprint()
	rc.Steps = s.Step
	rc.SimTime = s.Now()
	rc.Trace = s.Trace
}

// Property is one checkable property: Run executes exactly one simulated run
// (inside a synctest bubble) determined by rc.Scen and rc.Sched.
type Property struct {
	ID     string
	Run    func(rc *RunCtx)
	Strata func(tier string) [][]int32 // forced scenario-tape prefixes, cycled through on every other run
	Sweep  func(tier string) []Stratum // finite sub-spaces enumerated completely, once each, before anything else
	Note   string
}

// Stratum pins part of a scenario: a forced prefix of the scenario tape and/or named decisions.
type Stratum struct {
	Prefix []int32
	Named  map[string]int32
}

var Registry = map[string]*Property{}

func Register(p *Property) { Registry[p.ID] = p }

func sortedKeys[V any](m map[string]V) []string {
	ks := make([]string, 0, len(m))
	for k := range m {
		ks = append(ks, k)
	}
	sort.Strings(ks)
	return ks
}

// Shape adds a scenario-shape token to the run's distinctness fingerprint.
func (rc *RunCtx) Shape(format string, args ...any) {
	rc.FPTokens = append(rc.FPTokens, fmt.Sprintf(format, args...))
}

// logLine is what an application does with a value it wants in its log: formats it. Formatting must be passive.
func logLine(v any) string {
	return fmt.Sprintf("%v|%+v|%s", v, v, v)
}
