package sim

// Simulated transports: net.Conn pairs, listener, serial port (DESIGN.md §2.4).

import (
	"errors"
	"fmt"
	"io"
	"log"
	"net"
	"os"
	"time"
)

// ErrSimIO is the injected hard I/O error (distinct sentinel so wrapping can be checked with errors.Is).
var ErrSimIO = errors.New("simulated I/O error")

// ErrSimRefused is returned when dialling a closed listener / unknown address.
var ErrSimRefused = errors.New("simulated connection refused")

type simAddr string

func (a simAddr) Network() string { return "sim" }
func (a simAddr) String() string  { return string(a) }

// seg is one unit of in-flight data.
type seg struct {
	data []byte
	gap  time.Duration // delay after it became head of the queue (or after push if at is set)
	at   time.Time     // arrival time; zero until known
	solo bool          // returned by exactly one Read, never merged with neighbours
	err  error         // delivered together with the last byte of data (or alone if data is empty)
}

type stream struct {
	segs     []seg
	eof      bool // writer closed: EOF after all data
	consumed int
}

func (st *stream) headAt(now time.Time) {
	if len(st.segs) > 0 && st.segs[0].at.IsZero() {
		st.segs[0].at = now.Add(st.segs[0].gap)
	}
}

// IORec is one transport call as seen by the transport (ground truth for oracles).
type IORec struct {
	Kind string // "read" "write" "close" "flush"
	N    int
	Err  error
	Data []byte
	At   time.Duration
	Step int
}

type TimeoutStyle int

const (
	TimeoutDeadline TimeoutStyle = iota // (0, os.ErrDeadlineExceeded)
	TimeoutZeroNil                      // (0, nil)
	TimeoutEOF                          // (0, io.EOF)
)

// Conn is one end of a simulated byte-stream connection. It implements net.Conn.
type Conn struct {
	sim  *Sim
	Name string
	in   *stream
	out  *stream
	peer *Conn

	rdl    time.Time
	closed bool

	acceptedByServer bool // handed out by Listener.Accept
	acceptStep       int

	// knobs
	Latency      func() time.Duration // per write; nil = 0
	CutReads     bool                 // let the tape cut what a Read returns
	SerialMode   bool                 // serial port semantics: own timeout, min read cost
	PortTimeout  time.Duration
	TOStyle      TimeoutStyle
	MinReadCost  time.Duration
	WriteErr     error // next Write fails with this error ...
	WriteErrN    int   // ... after accepting this many bytes
	OnWrite      func(c *Conn, data []byte)
	OnClose      func(c *Conn)
	NoYieldWrite bool
	EOFWithData  bool // the read that drains the last queued byte before EOF also reports io.EOF

	Rec      []IORec
	RecLimit int
}

// NewPipe creates a connected pair.
func NewPipe(s *Sim, name string) (a, b *Conn) {
	ab, ba := &stream{}, &stream{}
	a = &Conn{sim: s, Name: name + ".a", in: ba, out: ab}
	b = &Conn{sim: s, Name: name + ".b", in: ab, out: ba}
	a.peer, b.peer = b, a
	return
}

func (c *Conn) record(r IORec) {
	if c.RecLimit > 0 && len(c.Rec) >= c.RecLimit {
		return
	}
	r.At = c.sim.Now()
	r.Step = c.sim.Step
	c.Rec = append(c.Rec, r)
}

// Push puts data into this end's receive queue (used by scripted peers).
func (c *Conn) Push(sg ...seg) {
	c.sim.mu.Lock()
	c.in.segs = append(c.in.segs, sg...)
	c.in.headAt(time.Now())
	c.sim.mu.Unlock()
}

// PushEOF marks the receive direction as closed by the peer after all queued data.
func (c *Conn) PushEOF() {
	c.sim.mu.Lock()
	c.in.eof = true
	c.sim.mu.Unlock()
}

// Pending is the number of bytes queued but not yet read on this end.
func (c *Conn) Pending() int {
	c.sim.mu.Lock()
	defer c.sim.mu.Unlock()
	n := 0
	for _, s := range c.in.segs {
		n += len(s.data)
	}
	return n
}

func (c *Conn) Consumed() int {
	c.sim.mu.Lock()
	defer c.sim.mu.Unlock()
	return c.in.consumed
}

func (c *Conn) IsClosed() bool {
	c.sim.mu.Lock()
	defer c.sim.mu.Unlock()
	return c.closed
}

// availLocked: number of bytes readable now, whether the head is a bare error, and the next arrival time.
// Caller holds sim.mu (or is the scheduler at quiescence).
func (c *Conn) availLocked(now time.Time) (n int, headErr bool, next time.Time) {
	st := c.in
	st.headAt(now)
	for i := range st.segs {
		sg := &st.segs[i]
		if sg.at.IsZero() {
			break // scripted segment that is not head yet: its gap starts when it becomes head
		}
		if sg.at.After(now) {
			if i == 0 {
				next = sg.at
			}
			break
		}
		if i > 0 && (sg.solo || st.segs[i-1].solo || st.segs[i-1].err != nil) {
			break
		}
		if len(sg.data) == 0 {
			if sg.err != nil && i == 0 {
				headErr = true
			}
			break
		}
		n += len(sg.data)
	}
	return
}

func (c *Conn) Read(p []byte) (int, error) {
	s := c.sim
	deadline := c.rdl
	if c.SerialMode {
		deadline = time.Now().Add(c.PortTimeout)
	}
	var minAt time.Time
	if c.MinReadCost > 0 {
		minAt = time.Now().Add(c.MinReadCost)
	}
	r := s.Park("rd:"+c.Name, "read", func(now time.Time) (bool, Reason, time.Time) {
		n, headErr, next := c.availLocked(now)
		if n > 0 {
			return true, Ready, time.Time{}
		}
		// a read that returns no data is never free (a real read(2) is not either): without this a
		// port that reports (0, EOF) at once would let an EOF-tolerant loop spin at one fake instant
		if !minAt.IsZero() && now.Before(minAt) {
			return false, Ready, minAt
		}
		if c.closed || headErr {
			return true, Ready, time.Time{}
		}
		if len(c.in.segs) == 0 && c.in.eof {
			return true, Ready, time.Time{}
		}
		if !deadline.IsZero() && !now.Before(deadline) {
			return true, Timeout, time.Time{}
		}
		if !deadline.IsZero() && (next.IsZero() || deadline.Before(next)) {
			next = deadline
		}
		return false, Ready, next
	})
	s.mu.Lock()
	defer s.mu.Unlock()
	if r == Drained {
		c.record(IORec{Kind: "read", Err: net.ErrClosed})
		return 0, net.ErrClosed
	}
	if c.closed {
		c.record(IORec{Kind: "read", Err: net.ErrClosed})
		s.logLocked("read %s closed", c.Name)
		return 0, net.ErrClosed
	}
	now := time.Now()
	n, headErr, _ := c.availLocked(now)
	if n == 0 && !headErr {
		if len(c.in.segs) == 0 && c.in.eof {
			c.record(IORec{Kind: "read", Err: io.EOF})
			s.logLocked("read %s eof", c.Name)
			return 0, io.EOF
		}
		// timeout
		var err error
		switch {
		case !c.SerialMode || c.TOStyle == TimeoutDeadline:
			err = os.ErrDeadlineExceeded
		case c.TOStyle == TimeoutEOF:
			err = io.EOF
		}
		c.record(IORec{Kind: "read", Err: err})
		s.logLocked("read %s timeout", c.Name)
		s.mixFP("rT")
		return 0, err
	}
	st := c.in
	if headErr {
		err := st.segs[0].err
		st.segs = st.segs[1:]
		st.headAt(now)
		c.record(IORec{Kind: "read", Err: err})
		s.logLocked("read %s err=%v", c.Name, err)
		s.mixFP("rE")
		return 0, err
	}
	k := n
	if k > len(p) {
		k = len(p)
	}
	if c.CutReads && k > 1 && !st.segs[0].solo {
		switch s.Tape.Pick(5, 2, 3) {
		case 1:
			k = 1
		case 2:
			k = k - s.Tape.Choose(k)
		}
	}
	// copy k bytes out of the queue
	got := 0
	var err error
	for got < k {
		sg := &st.segs[0]
		m := copy(p[got:k], sg.data)
		got += m
		sg.data = sg.data[m:]
		if len(sg.data) == 0 {
			if sg.err != nil {
				err = sg.err
			}
			st.segs = st.segs[1:]
			st.headAt(now)
			if err != nil {
				break
			}
		} else {
			// partially consumed: remainder available immediately
			break
		}
	}
	st.consumed += got
	if err == nil && len(st.segs) == 0 && st.eof && c.EOFWithData {
		err = io.EOF
	}
	c.record(IORec{Kind: "read", N: got, Err: err, Data: append([]byte(nil), p[:got]...)})
	s.logLocked("read %s n=%d err=%v %x", c.Name, got, err, p[:got])
	s.mixFP(fmt.Sprintf("r%d", bucket(got)))
	return got, err
}

func bucket(n int) int {
	switch {
	case n <= 2:
		return n
	case n <= 4:
		return 3
	case n <= 8:
		return 4
	case n <= 16:
		return 5
	case n <= 64:
		return 6
	default:
		return 7
	}
}

func (c *Conn) Write(p []byte) (int, error) {
	s := c.sim
	if !c.NoYieldWrite {
		if s.Park("wr:"+c.Name, "write", always) == Drained {
			return 0, net.ErrClosed
		}
	}
	s.mu.Lock()
	if c.closed {
		c.record(IORec{Kind: "write", Err: net.ErrClosed})
		s.logLocked("write %s closed", c.Name)
		s.mu.Unlock()
		return 0, net.ErrClosed
	}
	if c.WriteErr != nil {
		n := c.WriteErrN
		if n > len(p) {
			n = len(p)
		}
		err := c.WriteErr
		c.WriteErr = nil
		c.record(IORec{Kind: "write", N: n, Err: err, Data: append([]byte(nil), p[:n]...)})
		s.logLocked("write %s n=%d err=%v", c.Name, n, err)
		s.mixFP("wE")
		s.mu.Unlock()
		return n, err
	}
	if c.peer != nil && c.peer.closed {
		c.record(IORec{Kind: "write", Err: ErrSimIO})
		s.logLocked("write %s peer-closed", c.Name)
		s.mu.Unlock()
		return 0, fmt.Errorf("write %s: broken pipe: %w", c.Name, ErrSimIO)
	}
	if len(p) == 0 {
		s.mu.Unlock()
		return 0, nil
	}
	data := append([]byte(nil), p...)
	var lat time.Duration
	if c.Latency != nil {
		lat = c.Latency()
	}
	now := time.Now()
	sg := seg{data: data, at: now.Add(lat)}
	// keep arrival order monotonic
	if n := len(c.out.segs); n > 0 && c.out.segs[n-1].at.After(sg.at) {
		sg.at = c.out.segs[n-1].at
	}
	c.out.segs = append(c.out.segs, sg)
	c.record(IORec{Kind: "write", N: len(p), Data: data})
	s.logLocked("write %s n=%d %x", c.Name, len(p), p)
	s.mixFP(fmt.Sprintf("w%d", bucket(len(p))))
	cb := c.OnWrite
	s.mu.Unlock()
	if cb != nil {
		cb(c, data)
	}
	return len(p), nil
}

func (c *Conn) Close() error {
	s := c.sim
	s.mu.Lock()
	if c.closed {
		s.mu.Unlock()
		return nil
	}
	c.closed = true
	c.out.eof = true
	c.record(IORec{Kind: "close"})
	cb := c.OnClose
	s.mu.Unlock()
	s.LogUnordered("close " + c.Name)
	if cb != nil {
		cb(c)
	}
	return nil
}

func (c *Conn) Flush() error { return nil }

func (c *Conn) LocalAddr() net.Addr  { return simAddr(c.Name) }
func (c *Conn) RemoteAddr() net.Addr { return simAddr(c.peerName()) }
func (c *Conn) peerName() string {
	if c.peer != nil {
		return c.peer.Name
	}
	return "script"
}
func (c *Conn) SetDeadline(t time.Time) error {
	c.sim.mu.Lock()
	c.rdl = t
	c.sim.mu.Unlock()
	return nil
}
func (c *Conn) SetReadDeadline(t time.Time) error {
	c.sim.mu.Lock()
	c.rdl = t
	c.sim.mu.Unlock()
	return nil
}
func (c *Conn) SetWriteDeadline(t time.Time) error { return nil }

// ---- listener ----

type Listener struct {
	sim    *Sim
	Name   string
	queue  []*Conn
	closed bool
	nConn  int
	Conns  []*Conn // server ends, in dial order
	// ConnSetup lets the scenario configure both ends of a new connection.
	ConnSetup func(client, server *Conn)
}

func NewListener(s *Sim, name string) *Listener { return &Listener{sim: s, Name: name} }

// Dial creates a connection to the listener (non-yielding; callers yield around it as they see fit).
func (l *Listener) Dial() (*Conn, error) {
	s := l.sim
	s.mu.Lock()
	if l.closed {
		s.logLocked("dial %s refused", l.Name)
		s.mu.Unlock()
		return nil, ErrSimRefused
	}
	l.nConn++
	name := fmt.Sprintf("%s-c%d", l.Name, l.nConn)
	s.mu.Unlock()
	cl, sv := NewPipe(s, name)
	cl.Name = name + ".cli"
	sv.Name = name + ".srv"
	if l.ConnSetup != nil {
		l.ConnSetup(cl, sv)
	}
	s.mu.Lock()
	l.queue = append(l.queue, sv)
	l.Conns = append(l.Conns, sv)
	s.logLocked("dial %s -> %s", l.Name, name)
	s.mu.Unlock()
	return cl, nil
}

func (l *Listener) Accept() (net.Conn, error) {
	s := l.sim
	r := s.Park("accept:"+l.Name, "accept", func(time.Time) (bool, Reason, time.Time) {
		return l.closed || len(l.queue) > 0, Ready, time.Time{}
	})
	s.mu.Lock()
	defer s.mu.Unlock()
	if r == Drained || (l.closed && len(l.queue) == 0) || l.closed {
		s.logLocked("accept %s closed", l.Name)
		return nil, net.ErrClosed
	}
	c := l.queue[0]
	l.queue = l.queue[1:]
	c.acceptedByServer = true
	c.acceptStep = s.Step
	s.logLocked("accept %s", c.Name)
	s.mixFP("acc")
	return c, nil
}

func (l *Listener) Close() error {
	s := l.sim
	s.mu.Lock()
	already := l.closed
	l.closed = true
	pend := l.queue
	l.queue = nil
	s.mu.Unlock()
	if !already {
		s.LogUnordered("close-listener " + l.Name)
		// connections dialled but never accepted see a reset
		for _, c := range pend {
			c.Close()
		}
	}
	return nil
}

func (l *Listener) Addr() net.Addr { return simAddr(l.Name) }

func (l *Listener) IsClosed() bool {
	l.sim.mu.Lock()
	defer l.sim.mu.Unlock()
	return l.closed
}

// silenceLog discards output of package log (the server's default OnErrorFunc) for the duration of a run.
func silenceLog() func() {
	old := log.Writer()
	log.SetOutput(io.Discard)
	return func() { log.SetOutput(old) }
}
