package sim

// Simulated transports: net.Conn pairs, listener, serial port (DESIGN.md §2.4).

import (
	"errors"
	"fmt"
	"io"
	"log"
	"net"
	"os"
	"sync"
	"time"
)

// ErrSimIO is the injected hard I/O error (distinct sentinel so wrapping can be checked with errors.Is).
var ErrSimIO = errors.New("simulated I/O error")

// ErrSimRefused is returned when dialling a closed listener / unknown address.
var ErrSimRefused = errors.New("simulated connection refused")

type simAddr string

func (a simAddr) Network() string { return "sim" }
func (a simAddr) String() string  { return string(a) }

// seg is one unit of in-flight data.
type seg struct {
	data []byte
	gap  time.Duration // delay after it became head of the queue (or after push if at is set)
	at   time.Time     // arrival time; zero until known
	solo bool          // returned by exactly one Read, never merged with neighbours
	err  error         // delivered together with the last byte of data (or alone if data is empty)
}

type stream struct {
	segs     []seg
	eof      bool // writer closed: EOF after all data
	consumed int
}

func (st *stream) headAt(now time.Time) {
	if len(st.segs) > 0 && st.segs[0].at.IsZero() {
		st.segs[0].at = now.Add(st.segs[0].gap)
	}
}

// IORec is one transport call as seen by the transport (ground truth for oracles).
type IORec struct {
	Kind string // "read" "write" "close" "flush"
	N    int
	Err  error
	Data []byte
	At   time.Duration
	Step int
}

type TimeoutStyle int

const (
	TimeoutDeadline TimeoutStyle = iota // (0, os.ErrDeadlineExceeded)
	TimeoutZeroNil                      // (0, nil)
	TimeoutEOF                          // (0, io.EOF)
)

// Conn is one end of a simulated byte-stream connection. It implements net.Conn.
type Conn struct {
	sim  *Sim
	Name string
	in   *stream
	out  *stream
	peer *Conn

	rdl    time.Time
	wdl    time.Time
	closed bool
	lk     *sync.Mutex // pipe lock (race mode)
	rng    uint64

	acceptedByServer bool // handed out by Listener.Accept
	acceptStep       int

	// knobs
	Latency           func() time.Duration // per write; nil = 0
	CutReads          bool                 // let the tape cut what a Read returns
	SerialMode        bool                 // serial port semantics: own timeout, min read cost
	PortTimeout       time.Duration
	TOStyle           TimeoutStyle
	ZeroNilPoll       time.Duration // network connections: >0 = non-blocking reads that return (0, nil) after this long when nothing has arrived; read deadlines are ignored
	MinReadCost       time.Duration
	Endless           bool // once armed (ArmEndless) the receive direction never runs dry
	endlessArmed      bool
	endlessN          int
	TimeoutErr        error  // returned by a timed-out read instead of the bare os.ErrDeadlineExceeded (network mode)
	DoubleCloseErr    bool   // a second Close fails with net.ErrClosed, as on real sockets
	AddrOverride      string // RemoteAddr reports this instead of the peer's name (listeners whose peers have no distinct address: pipes, unix sockets)
	WDeadlineErr      error  // SetWriteDeadline fails with this error
	WDeadlineRejected int
	WriteErr          error // next Write fails with this error ...
	WriteErrN         int   // ... after accepting this many bytes
	OnWrite           func(c *Conn, data []byte)
	OnWriteBegin      func(c *Conn) // called when Write is entered, before it is scheduled
	PartialWriteAt    int           // >0: the n-th Write on this end is cut short by a stalled peer: some bytes go out, then the write deadline strikes
	writeCount        int
	YieldSetDeadline  bool                 // SetReadDeadline is a scheduling point too
	OnReadBegin       func(c *Conn)        // called when Read is entered
	OnReadEnd         func(c *Conn)        // called when Read returns
	WriteDelay        func() time.Duration // simulated time a Write takes (slow or back-pressured peer); nil = none
	OnClose           func(c *Conn)
	NoYieldWrite      bool
	EOFWithData       bool // the read that drains the last queued byte before EOF also reports io.EOF
	TimeoutWithData   bool // some reads that return data also report os.ErrDeadlineExceeded

	Rec      []IORec
	RecLimit int
}

// NewPipe creates a connected pair.
func NewPipe(s *Sim, name string) (a, b *Conn) {
	ab, ba := &stream{}, &stream{}
	lk := &sync.Mutex{}
	a = &Conn{sim: s, Name: name + ".a", in: ba, out: ab, lk: lk, rng: HashString(name)}
	b = &Conn{sim: s, Name: name + ".b", in: ab, out: ba, lk: lk, rng: HashString(name) ^ 0x5555}
	a.peer, b.peer = b, a
	return
}

// In baton mode all simulator state is guarded by sim.mu (the scheduler reads it at quiescence). In race mode each
// pipe has its own lock, so that goroutines working on different connections share no synchronisation through the
// harness (every shared lock would add happens-before edges and hide races of the code under test).
func (c *Conn) lock() {
	if c.sim.Free {
		c.lk.Lock()
	} else {
		c.sim.mu.Lock()
	}
}

func (c *Conn) unlock() {
	if c.sim.Free {
		c.lk.Unlock()
	} else {
		c.sim.mu.Unlock()
	}
}

func (c *Conn) locker() sync.Locker {
	if c.sim.Free {
		return c.lk
	}
	return &c.sim.mu
}

// choose/pick: tape decisions in baton mode; a private generator in race mode (caller holds the pipe lock).
func (c *Conn) choose(n int) int {
	if c.sim.Free {
		if n <= 1 {
			return 0
		}
		return int(splitmix(&c.rng) % uint64(n))
	}
	return c.sim.Tape.Choose(n)
}

func (c *Conn) pick(weights ...int) int {
	if !c.sim.Free {
		return c.sim.Tape.Pick(weights...)
	}
	total := 0
	for _, w := range weights {
		total += w
	}
	v := c.choose(total)
	for i, w := range weights {
		if v < w {
			return i
		}
		v -= w
	}
	return 0
}

func (c *Conn) record(r IORec) {
	if c.RecLimit > 0 && len(c.Rec) >= c.RecLimit {
		return
	}
	r.At = c.sim.Now()
	if !c.sim.Free {
		r.Step = c.sim.Step
	}
	c.Rec = append(c.Rec, r)
}

// Push puts data into this end's receive queue (used by scripted peers).
func (c *Conn) Push(sg ...seg) {
	c.lock()
	c.in.segs = append(c.in.segs, sg...)
	c.in.headAt(time.Now())
	c.unlock()
}

// ArmEndless: from now on the receive direction never runs dry (Endless must be set).
func (c *Conn) ArmEndless() {
	c.lock()
	c.endlessArmed = true
	c.unlock()
}

// PushEOF marks the receive direction as closed by the peer after all queued data.
func (c *Conn) PushEOF() {
	c.lock()
	c.in.eof = true
	c.unlock()
}

// Pending is the number of bytes queued but not yet read on this end.
func (c *Conn) Pending() int {
	c.lock()
	defer c.unlock()
	n := 0
	for _, s := range c.in.segs {
		n += len(s.data)
	}
	return n
}

func (c *Conn) Consumed() int {
	c.lock()
	defer c.unlock()
	return c.in.consumed
}

func (c *Conn) IsClosed() bool {
	c.lock()
	defer c.unlock()
	return c.closed
}

// availLocked: number of bytes readable now, whether the head is a bare error, and the next arrival time.
// Caller holds sim.mu (or is the scheduler at quiescence).
func (c *Conn) availLocked(now time.Time) (n int, headErr bool, next time.Time) {
	st := c.in
	if c.Endless && c.endlessArmed && !st.eof {
		// a sender that never stops: there is always more queued than any read asks for, so every read is filled to the brim
		queued := 0
		for i := range st.segs {
			queued += len(st.segs[i].data)
		}
		if queued < 4096 {
			junk := make([]byte, 4096)
			for i := range junk {
				junk[i] = byte(0xa5 ^ (c.endlessN + i))
			}
			c.endlessN += len(junk)
			if k := len(st.segs); k > 0 && st.segs[k-1].err == nil {
				st.segs[k-1].data = append(st.segs[k-1].data, junk...)
			} else {
				st.segs = append(st.segs, seg{data: junk})
			}
		}
	}
	st.headAt(now)
	for i := range st.segs {
		sg := &st.segs[i]
		if sg.at.IsZero() {
			break // scripted segment that is not head yet: its gap starts when it becomes head
		}
		if sg.at.After(now) {
			if i == 0 {
				next = sg.at
			}
			break
		}
		if i > 0 && (sg.solo || st.segs[i-1].solo || st.segs[i-1].err != nil) {
			break
		}
		if len(sg.data) == 0 {
			if sg.err != nil && i == 0 {
				headErr = true
			}
			break
		}
		n += len(sg.data)
	}
	return
}

func (c *Conn) Read(p []byte) (int, error) {
	s := c.sim
	if c.OnReadBegin != nil {
		c.OnReadBegin(c)
	}
	if c.OnReadEnd != nil {
		defer c.OnReadEnd(c)
	}
	deadline := c.rdl
	if c.SerialMode {
		deadline = time.Now().Add(c.PortTimeout)
		if !c.rdl.IsZero() && c.rdl.Before(deadline) {
			deadline = c.rdl // a port that offers read deadlines honours the nearer one
		}
	}
	if !c.SerialMode && c.ZeroNilPoll > 0 {
		// a non-blocking connection wrapper: a read returns at once with what there is - nothing, and no error, when
		// nothing has arrived (each such poll costs a little time); its deadlines are no-ops
		deadline = time.Now().Add(c.ZeroNilPoll)
	}
	var minAt time.Time
	if c.MinReadCost > 0 {
		minAt = time.Now().Add(c.MinReadCost)
	}
	// a network connection whose read deadline has already passed when Read is called fails at once, whether or not
	// bytes are waiting (net.TCPConn and net.Pipe both look at the deadline first)
	expired := !c.SerialMode && c.ZeroNilPoll == 0 && !deadline.IsZero() && !time.Now().Before(deadline)
	r := s.ParkL("rd:"+c.Name, "read", c.locker(), func(now time.Time) (bool, Reason, time.Time) {
		if expired && !c.closed {
			return true, Timeout, time.Time{}
		}
		n, headErr, next := c.availLocked(now)
		if n > 0 {
			return true, Ready, time.Time{}
		}
		// a read that returns no data is never free (a real read(2) is not either): without this a
		// port that reports (0, EOF) at once would let an EOF-tolerant loop spin at one fake instant
		if !minAt.IsZero() && now.Before(minAt) {
			return false, Ready, minAt
		}
		if c.closed || headErr {
			return true, Ready, time.Time{}
		}
		if len(c.in.segs) == 0 && c.in.eof {
			return true, Ready, time.Time{}
		}
		if !deadline.IsZero() && !now.Before(deadline) {
			return true, Timeout, time.Time{}
		}
		if !deadline.IsZero() && (next.IsZero() || deadline.Before(next)) {
			next = deadline
		}
		return false, Ready, next
	})
	c.lock()
	defer c.unlock()
	if r == Drained {
		c.record(IORec{Kind: "read", Err: net.ErrClosed})
		return 0, net.ErrClosed
	}
	if c.closed {
		c.record(IORec{Kind: "read", Err: net.ErrClosed})
		s.logLocked("read %s closed", c.Name)
		return 0, net.ErrClosed
	}
	now := time.Now()
	n, headErr, _ := c.availLocked(now)
	if expired {
		n, headErr = 0, false
	}
	if n == 0 && !headErr {
		if len(c.in.segs) == 0 && c.in.eof && !expired {
			c.record(IORec{Kind: "read", Err: io.EOF})
			s.logLocked("read %s eof", c.Name)
			return 0, io.EOF
		}
		// timeout
		var err error
		switch {
		case !c.SerialMode && c.ZeroNilPoll > 0:
			err = nil
		case c.TimeoutErr != nil && (!c.SerialMode || c.TOStyle == TimeoutDeadline):
			err = c.TimeoutErr
		case !c.SerialMode || c.TOStyle == TimeoutDeadline:
			err = os.ErrDeadlineExceeded
		case c.TOStyle == TimeoutEOF:
			err = io.EOF
		}
		c.record(IORec{Kind: "read", Err: err})
		s.logLocked("read %s timeout", c.Name)
		s.mixFP("rT")
		return 0, err
	}
	st := c.in
	if headErr {
		err := st.segs[0].err
		st.segs = st.segs[1:]
		st.headAt(now)
		c.record(IORec{Kind: "read", Err: err})
		s.logLocked("read %s err=%v", c.Name, err)
		s.mixFP("rE")
		return 0, err
	}
	k := n
	if k > len(p) {
		k = len(p)
	}
	if c.CutReads && k > 1 && !st.segs[0].solo {
		switch c.pick(5, 2, 3) {
		case 1:
			k = 1
		case 2:
			k = k - c.choose(k)
		}
	}
	// copy k bytes out of the queue
	got := 0
	var err error
	for got < k {
		sg := &st.segs[0]
		m := copy(p[got:k], sg.data)
		got += m
		sg.data = sg.data[m:]
		if len(sg.data) == 0 {
			if sg.err != nil {
				err = sg.err
			}
			st.segs = st.segs[1:]
			st.headAt(now)
			if err != nil {
				break
			}
		} else {
			// partially consumed: remainder available immediately
			break
		}
	}
	st.consumed += got
	if err == nil && len(st.segs) == 0 && st.eof && c.EOFWithData {
		err = io.EOF
	}
	if err == nil && c.TimeoutWithData && !c.rdl.IsZero() && c.pick(3, 1) == 1 {
		err = os.ErrDeadlineExceeded // the deadline struck while data was being handed over: n > 0 with an error is legal for io.Reader
	}
	c.record(IORec{Kind: "read", N: got, Err: err, Data: append([]byte(nil), p[:got]...)})
	s.logLocked("read %s n=%d err=%v %x", c.Name, got, err, p[:got])
	s.mixFP(fmt.Sprintf("r%d", bucket(got)))
	return got, err
}

func bucket(n int) int {
	switch {
	case n <= 2:
		return n
	case n <= 4:
		return 3
	case n <= 8:
		return 4
	case n <= 16:
		return 5
	case n <= 64:
		return 6
	default:
		return 7
	}
}

func (c *Conn) Write(p []byte) (int, error) {
	s := c.sim
	if c.OnWriteBegin != nil {
		c.OnWriteBegin(c)
	}
	if !c.NoYieldWrite {
		if s.ParkL("wr:"+c.Name, "write", c.locker(), always) == Drained {
			return 0, net.ErrClosed
		}
	}
	if c.WriteDelay != nil {
		if d := c.WriteDelay(); d > 0 {
			at := time.Now().Add(d)
			if s.ParkL("wr:"+c.Name, "write-slow", c.locker(), func(now time.Time) (bool, Reason, time.Time) {
				if !now.Before(at) || c.closed {
					return true, Ready, time.Time{}
				}
				return false, Ready, at
			}) == Drained {
				return 0, net.ErrClosed
			}
		}
	}
	c.lock()
	if c.closed {
		c.record(IORec{Kind: "write", Err: net.ErrClosed})
		s.logLocked("write %s closed", c.Name)
		c.unlock()
		return 0, net.ErrClosed
	}
	if !c.wdl.IsZero() && !time.Now().Before(c.wdl) {
		// a write whose deadline has already passed fails, as on a real connection
		c.record(IORec{Kind: "write", Err: os.ErrDeadlineExceeded})
		s.logLocked("write %s deadline-exceeded", c.Name)
		c.unlock()
		return 0, os.ErrDeadlineExceeded
	}
	c.writeCount++
	if c.PartialWriteAt > 0 && c.writeCount == c.PartialWriteAt && len(p) > 1 {
		// the peer stops reading in the middle of this write: part of it is delivered, the rest waits until the write deadline
		k := 1 + c.choose(len(p)-1)
		data := append([]byte(nil), p[:k]...)
		c.out.segs = append(c.out.segs, seg{data: data, at: time.Now()})
		c.record(IORec{Kind: "write", N: k, Err: os.ErrDeadlineExceeded, Data: data})
		s.logLocked("write %s partial n=%d of %d then deadline", c.Name, k, len(p))
		s.mixFP("wP")
		wdl := c.wdl
		c.unlock()
		if !wdl.IsZero() {
			s.ParkL("wr:"+c.Name, "write-blocked", c.locker(), func(now time.Time) (bool, Reason, time.Time) {
				if !now.Before(wdl) || c.closed {
					return true, Ready, time.Time{}
				}
				return false, Ready, wdl
			})
		}
		return k, os.ErrDeadlineExceeded
	}
	if c.WriteErr != nil {
		n := c.WriteErrN
		if n > len(p) {
			n = len(p)
		}
		err := c.WriteErr
		c.WriteErr = nil
		c.record(IORec{Kind: "write", N: n, Err: err, Data: append([]byte(nil), p[:n]...)})
		s.logLocked("write %s n=%d err=%v", c.Name, n, err)
		s.mixFP("wE")
		c.unlock()
		return n, err
	}
	if c.peer != nil && c.peer.closed {
		c.record(IORec{Kind: "write", Err: ErrSimIO})
		s.logLocked("write %s peer-closed", c.Name)
		c.unlock()
		return 0, fmt.Errorf("write %s: broken pipe: %w", c.Name, ErrSimIO)
	}
	if len(p) == 0 {
		c.unlock()
		return 0, nil
	}
	data := append([]byte(nil), p...)
	var lat time.Duration
	if c.Latency != nil {
		lat = c.Latency()
	}
	now := time.Now()
	sg := seg{data: data, at: now.Add(lat)}
	// keep arrival order monotonic
	if n := len(c.out.segs); n > 0 && c.out.segs[n-1].at.After(sg.at) {
		sg.at = c.out.segs[n-1].at
	}
	c.out.segs = append(c.out.segs, sg)
	c.record(IORec{Kind: "write", N: len(p), Data: data})
	s.logLocked("write %s n=%d %x", c.Name, len(p), p)
	s.mixFP(fmt.Sprintf("w%d", bucket(len(p))))
	cb := c.OnWrite
	c.unlock()
	if cb != nil {
		cb(c, data)
	}
	return len(p), nil
}

func (c *Conn) Close() error {
	s := c.sim
	c.lock()
	if c.closed {
		c.unlock()
		if c.DoubleCloseErr {
			return &net.OpError{Op: "close", Net: "sim", Err: net.ErrClosed} // what a *net.TCPConn answers to a second Close
		}
		return nil
	}
	c.closed = true
	c.out.eof = true
	c.record(IORec{Kind: "close"})
	cb := c.OnClose
	c.unlock()
	s.LogUnordered("close " + c.Name)
	if cb != nil {
		cb(c)
	}
	return nil
}

func (c *Conn) Flush() error { return nil }

func (c *Conn) LocalAddr() net.Addr { return simAddr(c.Name) }
func (c *Conn) RemoteAddr() net.Addr {
	if c.AddrOverride != "" {
		return simAddr(c.AddrOverride)
	}
	return simAddr(c.peerName())
}
func (c *Conn) peerName() string {
	if c.peer != nil {
		return c.peer.Name
	}
	return "script"
}
func (c *Conn) SetDeadline(t time.Time) error {
	c.lock()
	c.rdl = t
	c.wdl = t
	c.unlock()
	return nil
}
func (c *Conn) SetReadDeadline(t time.Time) error {
	if c.YieldSetDeadline && !c.sim.Free {
		// optional scheduling point between two transport calls of one loop iteration
		c.sim.ParkL("dl:"+c.Name, "set-read-deadline", c.locker(), always)
	}
	c.lock()
	c.rdl = t
	c.unlock()
	return nil
}
func (c *Conn) SetWriteDeadline(t time.Time) error {
	c.lock()
	defer c.unlock()
	if c.WDeadlineErr != nil {
		c.WDeadlineRejected++
		return c.WDeadlineErr
	}
	c.wdl = t
	return nil
}

// ---- listener ----

type Listener struct {
	sim    *Sim
	Name   string
	queue  []*Conn
	closed bool
	lk     sync.Mutex
	nConn  int
	Conns  []*Conn // server ends, in dial order
	// ConnSetup lets the scenario configure both ends of a new connection.
	ConnSetup func(client, server *Conn)
	// ClosedErr is what Accept returns once the listener is closed (nil: net.ErrClosed; in-memory listeners such as
	// grpc's bufconn answer with an error of their own)
	ClosedErr error
}

func NewListener(s *Sim, name string) *Listener { return &Listener{sim: s, Name: name} }

func (l *Listener) lock() {
	if l.sim.Free {
		l.lk.Lock()
	} else {
		l.sim.mu.Lock()
	}
}

func (l *Listener) unlock() {
	if l.sim.Free {
		l.lk.Unlock()
	} else {
		l.sim.mu.Unlock()
	}
}

func (l *Listener) locker() sync.Locker {
	if l.sim.Free {
		return &l.lk
	}
	return &l.sim.mu
}

// Dial creates a connection to the listener (non-yielding; callers yield around it as they see fit).
func (l *Listener) Dial() (*Conn, error) {
	s := l.sim
	l.lock()
	if l.closed {
		s.logLocked("dial %s refused", l.Name)
		l.unlock()
		return nil, ErrSimRefused
	}
	l.nConn++
	name := fmt.Sprintf("%s-c%d", l.Name, l.nConn)
	l.unlock()
	cl, sv := NewPipe(s, name)
	cl.Name = name + ".cli"
	sv.Name = name + ".srv"
	if l.ConnSetup != nil {
		l.ConnSetup(cl, sv)
	}
	l.lock()
	l.queue = append(l.queue, sv)
	l.Conns = append(l.Conns, sv)
	s.logLocked("dial %s -> %s", l.Name, name)
	l.unlock()
	return cl, nil
}

func (l *Listener) Accept() (net.Conn, error) {
	s := l.sim
	r := s.ParkL("accept:"+l.Name, "accept", l.locker(), func(time.Time) (bool, Reason, time.Time) {
		return l.closed || len(l.queue) > 0, Ready, time.Time{}
	})
	l.lock()
	defer l.unlock()
	if r == Drained || (l.closed && len(l.queue) == 0) || l.closed {
		s.logLocked("accept %s closed", l.Name)
		if l.ClosedErr != nil && r != Drained {
			return nil, l.ClosedErr
		}
		return nil, net.ErrClosed
	}
	c := l.queue[0]
	l.queue = l.queue[1:]
	c.acceptedByServer = true
	c.acceptStep = s.Step
	s.logLocked("accept %s", c.Name)
	s.mixFP("acc")
	return c, nil
}

func (l *Listener) Close() error {
	s := l.sim
	l.lock()
	already := l.closed
	l.closed = true
	pend := l.queue
	l.queue = nil
	l.unlock()
	if !already {
		s.LogUnordered("close-listener " + l.Name)
		// connections dialled but never accepted see a reset
		for _, c := range pend {
			c.Close()
		}
	}
	return nil
}

func (l *Listener) Addr() net.Addr { return simAddr(l.Name) }

func (l *Listener) IsClosed() bool {
	l.lock()
	defer l.unlock()
	return l.closed
}

// silenceLog discards output of package log (the server's default OnErrorFunc) for the duration of a run.
func silenceLog() func() {
	old := log.Writer()
	log.SetOutput(io.Discard)
	return func() { log.SetOutput(old) }
}

// AnyAccepted reports whether Accept has handed out at least one connection.
func (l *Listener) AnyAccepted() bool {
	if l.sim.Free { // in baton mode conditions are evaluated by the scheduler, which holds the simulator lock
		l.lk.Lock()
		defer l.lk.Unlock()
	}
	for _, c := range l.Conns {
		if c.acceptedByServer {
			return true
		}
	}
	return false
}
