module verifsim

go 1.26.8

require (
	github.com/aldas/go-modbus-client v0.0.0
	simsync v0.0.0
	github.com/anishathalye/porcupine v1.3.0
)

replace github.com/aldas/go-modbus-client => /repo

replace simsync => ../simsync
