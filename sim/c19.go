package sim

// C19 — client hooks observe exactly the bytes sent, each chunk read and the final frame;
// installing hooks never changes the outcome.

import (
	"bytes"
	"fmt"
	"time"
)

func init() {
	Register(&Property{ID: "C19", Run: runC19, Strata: strataC19})
}

// strata: (flavour 0=C07-style 1=C08-style) then the first draws of that generator.
func strataC19(tier string) [][]int32 {
	var out [][]int32
	for kind := 0; kind < 3; kind++ {
		for fc := range AllFCs {
			out = append(out, []int32{0, int32(kind), int32(fc)})
		}
	}
	for fi := range c08Faults {
		for kind := 0; kind < 3; kind++ {
			out = append(out, []int32{1, int32(fi), int32(kind)})
		}
	}
	return out
}

func outcomeString(o *C1Outcome) string {
	if !o.Returned {
		return "no-return"
	}
	if o.Err != nil {
		return fmt.Sprintf("err:%T:%s", o.Err, o.Err)
	}
	if isNilResponse(o.Resp) {
		return "nil-nil"
	}
	return fmt.Sprintf("ok:%T:%x", o.Resp, o.Resp.Bytes())
}

func recString(rs []IORec) string {
	var b bytes.Buffer
	for _, r := range rs {
		fmt.Fprintf(&b, "%s n=%d err=%v %x;", r.Kind, r.N, r.Err, r.Data)
	}
	return b.String()
}

func runC19(rc *RunCtx) {
	t := rc.Scen
	var sc *C1
	var ok bool
	flavour := t.Choose(2)
	if flavour == 0 {
		sc, ok = genC07(rc)
	} else {
		sc, ok = genC08(rc)
	}
	if !ok {
		rc.Probe("ctor_refused")
		return
	}
	if flavour == 1 && (sc.Fault == FStall || sc.Fault == FCancelAt || sc.Fault == FCtxDeadline) && len(sc.Full) > len(sc.Reply) && t.Chance(1, 2) {
		// the rest of the reply arrives after the call has given up, and the next call on the same client finds it
		sc.LateRest = sc.Full[len(sc.Reply):]
		if n, ok := genC07Kind(rc, int(sc.Kind)); ok {
			n.ReadTimeout, n.PortTimeout, n.TOStyle, n.Flusher, n.WriteTimeout = sc.ReadTimeout, sc.PortTimeout, sc.TOStyle, sc.Flusher, sc.WriteTimeout
			n.KeepStale = true
			n.Then = nil
			sc.Then = n
		}
	}
	if flavour == 0 && sc.Then == nil && sc.Kind != KSerial && t.Chance(1, 4) {
		// the client is connected again (with or without closing first) and used for another call
		if n, ok := genC07Kind(rc, int(sc.Kind)); ok {
			n.ReadTimeout, n.WriteTimeout = sc.ReadTimeout, sc.WriteTimeout
			if need := 2*totalGap(n.Chunks) + 50*time.Millisecond; sc.ReadTimeout < need {
				n.Chunks = []Chunk{{N: len(n.Reply)}}
			}
			n.Reconnect = []int{1, 2, 0, 0}[t.Choose(4)]
			if t.Chance(1, 2) {
				n.IdleBefore = time.Duration(300+t.Choose(3000)) * time.Millisecond // the client sits idle for a while first
			}
			n.Then = nil
			sc.Then = n
		}
	}
	if flavour == 0 && sc.Then == nil && len(sc.Chunks) > 0 && t.Chance(1, 5) {
		// bytes of something else arrive right behind the reply, in the same read (the start of an unsolicited frame, line noise)
		extra := t.Bytes(1 + t.Choose(8))
		sc.Reply = append(append([]byte(nil), sc.Reply...), extra...)
		sc.Chunks[len(sc.Chunks)-1].N += len(extra)
	}
	sc.Hooks = true
	if flavour == 0 && sc.Kind != KSerial && sc.Then == nil && !sc.LongSilence && !t.Has("cutmode") && totalGap(sc.Chunks) <= 60*time.Millisecond && t.Chance(1, 8) {
		// a non-blocking connection: a read that finds nothing returns (0, nil) - a transport read like any other, and the
		// after-read hook is owed a call for each (wave 15)
		sc.ZeroNilReads = true
		for i := range sc.Chunks {
			sc.Chunks[i].Err = nil
		}
	}
	if flavour == 0 && sc.Then == nil && !sc.LongSilence && totalGap(sc.Chunks) == 0 && len(sc.Chunks) <= 20 && t.Chance(1, 6) {
		// hooks that take their time (a logger writing to a slow sink): 0.6-2 ms per call, far less in total than the
		// read timeout - the reply is all there, the call must still bring it
		sc.HookDelay = time.Duration(600+t.Choose(1400)) * time.Microsecond
		if sc.ReadTimeout < 200*time.Millisecond {
			sc.ReadTimeout = 200 * time.Millisecond
		}
	}
	sc.ObserveParse = sc.Kind != KSerial && t.Choose(2) == 0 // otherwise the client comes from the protocol's own constructor
	sc.WrappedTimeouts = t.Choose(2) == 1
	sc.DeadlinePort = sc.Kind == KSerial && !sc.Flusher && t.Choose(2) == 1
	nilOpt := t.Choose(2) == 1
	sc.ValueHooks = t.Choose(3) == 0
	for n := sc.Then; n != nil; n = n.Then {
		n.ValueHooks = sc.ValueHooks
	}
	for n := sc.Then; n != nil; n = n.Then {
		n.DeadlinePort = sc.DeadlinePort
	}
	var hist []*C1
	if sc.Then == nil && sc.HookDelay == 0 && (sc.Fault == FNone || sc.Fault == FStall || sc.Fault == FEOF || sc.Fault == FIOErr || sc.Fault == FOversize) && t.Chance(1, 120) {
		// the exchange under test comes after a long history of exchanges on the same hooked client; every one of them
		// is held to the same obligations
		hist = genHistoryFrag(rc, sc, historyLen(t), false, true)
		rc.longRun = true
		defer func() { rc.longRun = false }()
	}
	mainSc := sc
	if len(hist) > 0 {
		sc = chainCalls(append(append([]*C1(nil), hist...), mainSc))
	}
	a := len(rc.Sched.Rec)
	withHooks := RunC1(rc, sc)
	hashA, fpA, stepsA, simA, traceA := rc.Hash, rc.FP, rc.Steps, rc.SimTime, rc.Trace
	// twin run: same scenario, same schedule choices, no hooks
	twin := *sc
	twin.Hooks = false
	twin.NilHooksOption = nilOpt
	rc2 := &RunCtx{Prop: rc.Prop, Tier: rc.Tier, Scen: rc.Scen, Sched: ReplayTape(append([]int32(nil), rc.Sched.Rec[a:]...)), Tracing: false, longRun: rc.longRun}
	without := RunC1(rc2, &twin)
	rc.Hash, rc.FP, rc.Steps, rc.SimTime, rc.Trace = hashA^(rc2.Hash*31), fpA, stepsA+rc2.Steps, simA+rc2.SimTime, traceA
	rc.Desc = mainSc.describe()
	rc.Desc["flavour"] = []string{"fragmentation", "fault"}[flavour]
	if len(hist) > 0 {
		rc.Desc["exchanges_before_on_this_client"] = len(hist)
		rc.Fault("long_history_before_the_call", len(withHooks.Next) == len(hist))
	}
	nreads := 0
	for _, r := range withHooks.Rec {
		if r.Kind == "read" {
			nreads++
		}
	}
	rc.Nontrivial = nreads >= 2
	rc.Probe(fmt.Sprintf("%s|%s|reads=%d", sc.Kind, sc.Fault, bucket(nreads)))
	if sc.Fault != FNone {
		rc.Fault(sc.Fault.String(), withHooks.Err != nil)
	}
	if len(sc.Chunks) >= 2 {
		rc.Fault("reply_split_across_reads", nreads >= 2)
	}
	base := fmt.Sprintf("client=%s", sc.Kind)

	if withHooks.Panic != nil || without.Panic != nil {
		rc.Violate("panic", base, "panic: %v / %v", withHooks.Panic, without.Panic)
		return
	}
	checkC19Call(rc, sc, withHooks, without, 0)
	i := 0
	for next := sc.Then; next != nil && i < len(withHooks.Next) && i < len(without.Next); next = next.Then {
		checkC19Call(rc, next, withHooks.Next[i], without.Next[i], i+1)
		i++
	}
}

func checkC19Call(rc *RunCtx, sc *C1, withHooks, without *C1Outcome, idx int) {
	base := fmt.Sprintf("client=%s", sc.Kind)
	if idx > 0 {
		base += "|followup"
	}
	if !withHooks.Returned || !without.Returned {
		// termination is C08's business; here only the comparison matters
		if withHooks.Returned != without.Returned {
			rc.Violate("hook_changes_outcome", base+"|what=termination", "with hooks returned=%v, without returned=%v", withHooks.Returned, without.Returned)
		}
		return
	}

	if withHooks.PendingRead {
		rc.Violate("read_never_reported", base, "Do returned while a transport read it had started was still in progress: whatever that read produces is reported to no hook of this call")
	}
	// --- hook arguments against the transport's own record ---
	var hw, hr, hp []hookRec
	for _, h := range withHooks.Hooks {
		switch h.Kind {
		case "write":
			hw = append(hw, h)
		case "read":
			hr = append(hr, h)
		case "parse":
			hp = append(hp, h)
		}
	}
	var tw, tr []IORec
	for _, r := range withHooks.Rec {
		switch r.Kind {
		case "write":
			tw = append(tw, r)
		case "read":
			tr = append(tr, r)
		}
	}
	reqBytes := []byte(nil)
	if sc.Fault != FNilRequest {
		reqBytes = sc.LibReq.Bytes()
	}
	attempted := len(tw) > 0
	if attempted {
		if len(hw) != 1 {
			rc.Violate("hook_args_mismatch", base+"|hook=BeforeWrite|what=count", "BeforeWrite called %d times for one request write", len(hw))
		} else if !bytes.Equal(hw[0].Data, reqBytes) {
			rc.Violate("hook_args_mismatch", base+"|hook=BeforeWrite|what=bytes", "BeforeWrite got %x, encoded request is %x", hw[0].Data, reqBytes)
		}
		if tw[0].Err == nil && !bytes.Equal(tw[0].Data, reqBytes) {
			rc.Violate("hook_args_mismatch", base+"|hook=BeforeWrite|what=wire", "transport received %x, encoded request is %x", tw[0].Data, reqBytes)
		}
	} else if len(hw) != 0 && sc.Fault != FNotConnected && sc.Fault != FNilRequest {
		rc.Violate("hook_args_mismatch", base+"|hook=BeforeWrite|what=no_write", "BeforeWrite called but nothing was written")
	}
	if len(hr) != len(tr) {
		rc.Violate("hook_args_mismatch", base+"|hook=AfterEachRead|what=count",
			"AfterEachRead called %d times for %d transport reads", len(hr), len(tr))
	} else {
		off := 0
		for i := range tr {
			h, r := hr[i], tr[i]
			if h.N != r.N || len(h.Data) != r.N || !bytes.Equal(h.Data, r.Data) || h.Err != r.Err {
				what := "bytes"
				switch {
				case h.N != r.N:
					what = "n"
				case len(h.Data) != r.N:
					what = "window_len"
				case h.Err != r.Err:
					what = "err"
				default:
					// find where in the stream the window came from
					all := withHooks.Consumed
					if idx := bytes.Index(all, h.Data); idx >= 0 && len(h.Data) > 0 {
						what = "window_offset"
						_ = idx
					}
				}
				rc.Violate("hook_args_mismatch", base+"|hook=AfterEachRead|what="+what,
					"read #%d: transport returned n=%d err=%v %x; hook got n=%d err=%v len=%d %x", i, r.N, r.Err, trunc(r.Data, 24), h.N, h.Err, len(h.Data), trunc(h.Data, 24))
				break
			}
			off += r.N
		}
	}
	// BeforeParse: exactly once, after the last read, with the concatenation, whenever the parser was reached
	if len(hp) > 1 {
		rc.Violate("hook_args_mismatch", base+"|hook=BeforeParse|what=count", "BeforeParse called %d times", len(hp))
	}
	if len(hp) >= 1 {
		if !bytes.Equal(hp[0].Data, withHooks.Consumed) {
			rc.Violate("hook_args_mismatch", base+"|hook=BeforeParse|what=bytes", "BeforeParse got %x, bytes read were %x", trunc(hp[0].Data, 40), trunc(withHooks.Consumed, 40))
		}
		last := withHooks.Hooks[len(withHooks.Hooks)-1]
		if last.Kind != "parse" {
			rc.Violate("hook_args_mismatch", base+"|hook=BeforeParse|what=order", "BeforeParse was not the last hook call")
		}
	}
	if sc.ObserveParse {
		if withHooks.ParseCalls != len(hp) {
			rc.Violate("hook_args_mismatch", base+"|hook=BeforeParse|what=missing", "parser invoked %d times, BeforeParse %d times", withHooks.ParseCalls, len(hp))
		}
		if withHooks.ParseCalls > 0 && len(hp) > 0 && !withHooks.ParseAfterHook {
			rc.Violate("hook_args_mismatch", base+"|hook=BeforeParse|what=late", "parser ran before BeforeParse")
		}
		if withHooks.ParseCalls == 1 && len(hp) == 1 && !bytes.Equal(withHooks.ParseArg, hp[0].Data) {
			rc.Violate("hook_args_mismatch", base+"|hook=BeforeParse|what=differs_from_parsed", "parser got %x, hook got %x", trunc(withHooks.ParseArg, 40), trunc(hp[0].Data, 40))
		}
	} else if withHooks.Err == nil && len(hp) != 1 {
		rc.Violate("hook_args_mismatch", base+"|hook=BeforeParse|what=missing", "call succeeded but BeforeParse was called %d times", len(hp))
	}

	// --- hooks must not change the outcome ---
	if a, b := outcomeString(withHooks), outcomeString(without); a != b {
		rc.Violate("hook_changes_outcome", base+"|what=result", "with hooks: %s; without: %s", a, b)
	}
	if sc.HookDelay > 0 {
		return // hooks that take time shift when the transport is polled: only the result is comparable
	}
	if a, b := recString(withHooks.Rec), recString(without.Rec); a != b {
		rc.Violate("hook_changes_outcome", base+"|what=transport_calls", "transport-visible call sequence differs with and without hooks")
	}
	if withHooks.Elapsed != without.Elapsed {
		rc.Violate("hook_changes_outcome", base+"|what=elapsed", "elapsed %v with hooks, %v without", withHooks.Elapsed, without.Elapsed)
	}
}
