package sim

// Self-tests of the machinery (run by `bin/check --setup`): the reference model against the worked examples of the
// MODBUS Application Protocol Specification V1.1b3 (section 6) and known CRC vectors; tape replay; glob matching.

import (
	"bytes"
	"encoding/hex"
	"errors"
	"os"
	"testing"
	"testing/synctest"
	"time"

	modbus "github.com/aldas/go-modbus-client"
	"github.com/aldas/go-modbus-client/packet"
)

func hx(s string) []byte {
	b, err := hex.DecodeString(s)
	if err != nil {
		panic(err)
	}
	return b
}

func TestSelfRefModelSpecExamples(t *testing.T) {
	// 6.1 Read Coils: request 01 0013 0013 -> 01 03 CD 6B 05
	d := NewDevice(1)
	bits := []byte{0xCD, 0x6B, 0x05}
	for i := 0; i < 19; i++ {
		d.SetBit(TabCoils, uint16(0x13+i), bits[i/8]&(1<<(uint(i)%8)) != 0)
	}
	if got := d.Exec(hx("0100130013")); !bytes.Equal(got, hx("0103CD6B05")) {
		t.Errorf("FC1 example: got %x", got)
	}
	if got := (Req{FC: 1, Addr: 0x13, Qty: 0x13}).PDU(); !bytes.Equal(got, hx("0100130013")) {
		t.Errorf("FC1 request encoding: %x", got)
	}
	// 6.2 Read Discrete Inputs: request 02 00C4 0016 -> 02 03 AC DB 35
	bits = []byte{0xAC, 0xDB, 0x35}
	for i := 0; i < 22; i++ {
		d.SetBit(TabDiscrete, uint16(0xC4+i), bits[i/8]&(1<<(uint(i)%8)) != 0)
	}
	if got := d.Exec(hx("0200C40016")); !bytes.Equal(got, hx("0203ACDB35")) {
		t.Errorf("FC2 example: got %x", got)
	}
	// 6.3 Read Holding Registers: 03 006B 0003 -> 03 06 022B 0000 0064
	d.SetReg(TabHolding, 0x6B, 0x022B)
	d.SetReg(TabHolding, 0x6C, 0)
	d.SetReg(TabHolding, 0x6D, 0x64)
	if got := d.Exec(hx("03006B0003")); !bytes.Equal(got, hx("0306022B00000064")) {
		t.Errorf("FC3 example: got %x", got)
	}
	// 6.4 Read Input Registers: 04 0008 0001 -> 04 02 000A
	d.SetReg(TabInput, 8, 0x000A)
	if got := d.Exec(hx("0400080001")); !bytes.Equal(got, hx("0402000A")) {
		t.Errorf("FC4 example: got %x", got)
	}
	// 6.5 Write Single Coil: 05 00AC FF00 echoed
	if got := d.Exec(hx("0500ACFF00")); !bytes.Equal(got, hx("0500ACFF00")) || !d.Bit(TabCoils, 0xAC) {
		t.Errorf("FC5 example: got %x", got)
	}
	// 6.6 Write Single Register: 06 0001 0003 echoed
	if got := d.Exec(hx("0600010003")); !bytes.Equal(got, hx("0600010003")) || d.Reg(TabHolding, 1) != 3 {
		t.Errorf("FC6 example: got %x", got)
	}
	// 6.11 Write Multiple Coils: 0F 0013 000A 02 CD01 -> 0F 0013 000A
	if got := d.Exec(hx("0F0013000A02CD01")); !bytes.Equal(got, hx("0F0013000A")) {
		t.Errorf("FC15 example: got %x", got)
	}
	want := []bool{true, false, true, true, false, false, true, true, true, false}
	for i, w := range want {
		if d.Bit(TabCoils, uint16(0x13+i)) != w {
			t.Errorf("FC15 example: coil %d", 0x13+i)
		}
	}
	coils := Req{FC: 15, Addr: 0x13, Coils: want}
	if got := coils.PDU(); !bytes.Equal(got, hx("0F0013000A02CD01")) {
		t.Errorf("FC15 request encoding: %x", got)
	}
	// 6.12 Write Multiple Registers: 10 0001 0002 04 000A 0102 -> 10 0001 0002
	if got := d.Exec(hx("100001000204000A0102")); !bytes.Equal(got, hx("1000010002")) || d.Reg(TabHolding, 2) != 0x0102 {
		t.Errorf("FC16 example: got %x", got)
	}
	// 6.17 Read/Write Multiple Registers: 17 0003 0006 000E 0003 06 00FF 00FF 00FF -> 17 0C 00FE 0ACD 0001 0003 000D 00FF
	vals := []uint16{0x00FE, 0x0ACD, 0x0001, 0x0003, 0x000D, 0x00FF}
	for i, v := range vals {
		d.SetReg(TabHolding, uint16(3+i), v)
	}
	if got := d.Exec(hx("170003000600" + "0E00030600FF00FF00FF")); !bytes.Equal(got, hx("170C00FE0ACD00010003000D00FF")) {
		t.Errorf("FC23 example: got %x", got)
	}
	if d.Reg(TabHolding, 0x0E) != 0xFF || d.Reg(TabHolding, 0x10) != 0xFF {
		t.Errorf("FC23 example: write part not stored")
	}
	// exceptions (section 7): unsupported function -> 01, bad quantity -> 03, address overflow -> 02
	if got := d.Exec(hx("2B0E0100")); !bytes.Equal(got, hx("AB01")) {
		t.Errorf("unsupported function: %x", got)
	}
	if got := d.Exec(hx("0300000000")); !bytes.Equal(got, hx("8303")) {
		t.Errorf("quantity 0: %x", got)
	}
	if got := d.Exec(hx("030000007E")); !bytes.Equal(got, hx("8303")) {
		t.Errorf("quantity 126: %x", got)
	}
	if got := d.Exec(hx("03FFFF0002")); !bytes.Equal(got, hx("8302")) {
		t.Errorf("address overflow: %x", got)
	}
	if got := d.Exec(hx("0500AC1234")); !bytes.Equal(got, hx("8503")) {
		t.Errorf("bad coil value: %x", got)
	}
}

func TestSelfCRCAndFraming(t *testing.T) {
	// vectors from the serial line guide / common references
	for _, v := range []struct {
		in  string
		crc uint16
	}{{"010402FFFF", 0x80B8}, {"1103006B0003", 0x8776}, {"0303" + "02CD6B", 0xFBD4}} {
		if got := RefCRC16(hx(v.in)); got != v.crc {
			t.Errorf("crc(%s) = %04x, want %04x", v.in, got, v.crc)
		}
	}
	f := FrameRTU(0x11, hx("03006B0003"))
	if !bytes.Equal(f, hx("1103006B00037687")) || !RTUConsistent(f) {
		t.Errorf("rtu frame %x", f)
	}
	f[3] ^= 1
	if RTUConsistent(f) {
		t.Errorf("corrupted frame passes")
	}
	tcp := FrameTCP(0x1234, 0x11, hx("03006B0003"))
	if !bytes.Equal(tcp, hx("123400000006"+"1103006B0003")) {
		t.Errorf("tcp frame %x", tcp)
	}
	frames, rest := SplitTCPStream(append(append([]byte{}, tcp...), tcp[:5]...))
	if len(frames) != 1 || len(rest) != 5 {
		t.Errorf("split: %d frames, rest %d", len(frames), len(rest))
	}
}

func TestSelfTapeReplay(t *testing.T) {
	a := NewTape(42)
	a.Force([]int32{3, 1})
	var got []int
	for i := 0; i < 50; i++ {
		got = append(got, a.Choose(7), a.Range(2, 9), a.Pick(1, 2, 3))
	}
	if got[0] != 3 {
		t.Errorf("forced value ignored")
	}
	b := ReplayTape(a.Rec)
	for i := 0; i < 50; i++ {
		if b.Choose(7) != got[3*i] || b.Range(2, 9) != got[3*i+1] || b.Pick(1, 2, 3) != got[3*i+2] {
			t.Fatalf("replay diverged at %d", i)
		}
	}
	c := ReplayTape(nil)
	if c.Choose(5) != 0 || c.Chance(1, 2) {
		t.Errorf("empty tape must yield the simplest choices")
	}
	if !globMatch("C07|premature_stop|client=*|fc=17|*", "C07|premature_stop|client=tcp|fc=17|delta=-3") || globMatch("a*b", "acd") {
		t.Errorf("glob")
	}
}

// TestSelfRefDecode pins the reference typed decode against the byte-order table documented in packet/registers.go
// (number 0xAE415652 sent as AE41 5652 / 5652 AE41 / 41AE 5256 / 5256 41AE).
func TestSelfRefDecode(t *testing.T) {
	for _, c := range []struct {
		regs  []uint16
		order packet.ByteOrder
	}{
		{[]uint16{0xAE41, 0x5652}, packet.BigEndianHighWordFirst},
		{[]uint16{0x5652, 0xAE41}, packet.BigEndianLowWordFirst},
		{[]uint16{0x41AE, 0x5256}, packet.LittleEndianLowWordFirst},
		{[]uint16{0x5256, 0x41AE}, packet.LittleEndianHighWordFirst},
		{[]uint16{0xAE41, 0x5652}, 0}, // default
	} {
		got := RefDecodeRegs(c.regs, modbus.Field{Type: modbus.FieldTypeUint32, ByteOrder: c.order})
		if got != uint32(0xAE415652) {
			t.Errorf("regs %04x order %d: %#x", c.regs, c.order, got)
		}
	}
	// strings: vectors pinned in packet/registers_test.go ("SVC" from 5653 8343 big endian, from 5356 4383 little endian)
	if got := RefDecodeRegs([]uint16{0x5653, 0x8343}, modbus.Field{Type: modbus.FieldTypeString, Length: 3}); got != "SVC" {
		t.Errorf("BE string: %q", got)
	}
	if got := RefDecodeRegs([]uint16{0x5356, 0x4383}, modbus.Field{Type: modbus.FieldTypeString, Length: 3, ByteOrder: packet.LittleEndian}); got != "SVC" {
		t.Errorf("LE string: %q", got)
	}
	if got := RefDecodeRegs([]uint16{0x5653, 0x0043, 0x4141}, modbus.Field{Type: modbus.FieldTypeString, Length: 6}); got != "SVC" {
		t.Errorf("NUL-terminated string: %q", got)
	}
	if got := RefDecodeRegs([]uint16{0x8001}, modbus.Field{Type: modbus.FieldTypeBit, Bit: 15}); got != true {
		t.Errorf("bit 15")
	}
	if got := RefDecodeRegs([]uint16{0x80FF}, modbus.Field{Type: modbus.FieldTypeInt8, FromHighByte: true}); got != int8(-128) {
		t.Errorf("int8 high: %v", got)
	}
}

// The case the thorough soak met once (seed 23): junk whose first read is length-consistent for function 3 is returned
// as a successful read-holding-registers response to a write-multiple-registers request. It must be reported under the
// signature that known_findings.json lists, and a frame that does carry the request's header must not get that suffix.
func TestSelfC08UnrelatedFrameSignature(t *testing.T) {
	junk := make([]byte, 262)
	j8 := []byte{0x95, 0x00, 0x00, 0x00, 0x00, 0x00, 0x00, 0x04}
	for i := range junk {
		junk[i] = j8[i%8] ^ byte(i)
	}
	junk[7], junk[8] = 0x03, 157
	run := func(reply []byte, chunks []Chunk) []Violation {
		var vs []Violation
		synctest.Test(t, func(t *testing.T) {
			req := Req{FC: 16, Addr: 0, Regs: make([]byte, 12)}
			lr, err := BuildLibRequest(req, 1, 1, TCP)
			if err != nil {
				t.Fatal(err)
			}
			full := FrameTCP(1, 1, []byte{16, 0, 0, 0, 6})
			sc := &C1{Kind: KTCP, Req: req, Unit: 1, TID: 1, LibReq: lr, Fault: FOversize, Reply: reply, Full: full, Chunks: chunks,
				ReadTimeout: 20 * time.Millisecond, WriteTimeout: time.Second}
			rc := &RunCtx{Prop: "C08", Tier: "quick", Scen: ReplayTape(nil), Sched: ReplayTape(nil)}
			out := RunC1(rc, sc)
			checkC08(rc, sc, out)
			vs = rc.Violations
		})
		return vs
	}
	vs := run(junk, []Chunk{{N: 166}, {N: 96}})
	if len(vs) != 1 || vs[0].Sig != "C08|success_under_fault|client=tcp|fault=oversize|resp=*packet.ReadHoldingRegistersResponseTCP|frame_unrelated_to_request" {
		t.Fatalf("unexpected: %+v", vs)
	}
	// a frame that carries the request's header is not "unrelated"; a complete genuine reply ahead of the flood is no violation
	sc := &C1{Kind: KTCP, Req: Req{FC: 16}, Unit: 1, TID: 1}
	if !frameAnswersRequest(sc, []byte{0, 1, 0, 0, 0, 6, 1, 16, 0, 0, 0, 6}) || !frameAnswersRequest(sc, []byte{0, 1, 0, 0, 0, 3, 1, 0x90, 2}) || frameAnswersRequest(sc, junk) {
		t.Fatal("frameAnswersRequest")
	}
	if vs := run(append(FrameTCP(1, 1, []byte{16, 0, 0, 0, 6}), junk...), []Chunk{{N: 12}, {N: 262}}); len(vs) != 0 {
		t.Fatalf("unexpected: %+v", vs)
	}
}

// Met twice in 14 million thorough runs (seed 37): a flood whose first nine bytes are the genuine header and whose second
// chunk happens to end exactly where the genuine reply would end. What the client has then read is a frame no client
// could tell from a reply; the flood behind it was never read. No violation - unless the transport offered more in that
// read and the client chose not to look.
func TestSelfC08IndistinguishableReply(t *testing.T) {
	req := Req{FC: 1, Addr: 0, Qty: 16}
	full := FrameTCP(7, 1, []byte{1, 2, 0xAA, 0x55})
	got := append(append([]byte(nil), full[:9]...), 0x11, 0x22)
	sc := &C1{Kind: KTCP, Req: req, Unit: 1, TID: 7, Full: full, Chunks: []Chunk{{N: 9}, {N: 2}, {N: 300}}}
	if !indistinguishableReply(sc, got) {
		t.Fatal("a frame with the genuine header ending at a read boundary must be exempt")
	}
	sc.Chunks = []Chunk{{N: 9}, {N: 302}}
	if indistinguishableReply(sc, got) {
		t.Fatal("no read boundary at the frame end: the client declined to read what was on offer")
	}
	sc.Chunks = []Chunk{{N: 9}, {N: 2}, {N: 300}}
	got[7] = 2
	if indistinguishableReply(sc, got) {
		t.Fatal("another function code is distinguishable")
	}
}

// Seed 41 of the thorough soak: eight genuine bytes, then a flood whose first byte reads as a byte count that fits the
// end of the second read. Accepted although the MBAP length field (5) contradicts the 233 bytes that follow.
func TestSelfC08MBAPLengthIgnoredSignature(t *testing.T) {
	var vs []Violation
	synctest.Test(t, func(t *testing.T) {
		req := Req{FC: 3, Addr: 0, Qty: 1}
		lr, err := BuildLibRequest(req, 1, 1, TCP)
		if err != nil {
			t.Fatal(err)
		}
		full := FrameTCP(1, 1, []byte{3, 2, 0xAB, 0xCD})
		reply := append([]byte(nil), full[:8]...)
		reply = append(reply, 230)
		for i := 0; i < 253; i++ {
			reply = append(reply, byte(i*7+3))
		}
		sc := &C1{Kind: KTCP, Req: req, Unit: 1, TID: 1, LibReq: lr, Fault: FOversize, Reply: reply, Full: full, Chunks: []Chunk{{N: 8}, {N: 231}, {N: 23}},
			ReadTimeout: 20 * time.Millisecond, WriteTimeout: time.Second}
		rc := &RunCtx{Prop: "C08", Tier: "quick", Scen: ReplayTape(nil), Sched: ReplayTape(nil)}
		out := RunC1(rc, sc)
		checkC08(rc, sc, out)
		vs = rc.Violations
	})
	if len(vs) != 1 || vs[0].Sig != "C08|success_under_fault|client=tcp|fault=oversize|resp=*packet.ReadHoldingRegistersResponseTCP|mbap_length_ignored" {
		t.Fatalf("unexpected: %+v", vs)
	}
}

// A long history on one client: every exchange of the history brings its reply, the held responses stay what they
// were, and the call under test is checked like any other (here: a healthy fragmented reply after 40 exchanges).
func TestSelfLongHistoryOnOneClient(t *testing.T) {
	var vs []Violation
	var n int
	synctest.Test(t, func(t *testing.T) {
		tape := NewTape(12345)
		rc := &RunCtx{Prop: "C07", Tier: "quick", Scen: tape, Sched: ReplayTape(nil)}
		sc, ok := genC1BaseKind(tape, false, int(KTCP))
		for !ok || sc.Req.FC == 23 || sc.Req.FC == 17 || sc.Req.FC == 5 {
			sc, ok = genC1BaseKind(tape, false, int(KTCP))
		}
		sc.Chunks = []Chunk{{N: len(sc.Reply)}}
		sc.ReadTimeout = 100 * time.Millisecond
		hist := genHistory(rc, sc, 40, false)
		first := RunC1Long(rc, chainCalls(append(append([]*C1(nil), hist...), sc)))
		failed, changed := historyTrouble(hist, first)
		if failed != "" || changed != "" {
			t.Fatalf("history: %q %q", failed, changed)
		}
		main := outcomeOf(first, len(hist))
		if main == nil {
			t.Fatal("the call after the history did not take place")
		}
		checkC07(rc, sc, main)
		vs, n = rc.Violations, len(hist)
	})
	if n != 40 || len(vs) != 0 {
		t.Fatalf("history of %d exchanges, violations %+v", n, vs)
	}
}

// A network connection whose read deadline has already passed fails a Read at once, bytes waiting or not.
func TestSelfExpiredDeadlineBeatsWaitingBytes(t *testing.T) {
	synctest.Test(t, func(t *testing.T) {
		s := NewSim(ReplayTape(nil))
		defer s.Activate()()
		cl, _ := NewPipe(s, "c")
		var n int
		var err error
		s.Go("reader", false, func(tk *Task) {
			cl.Push(seg{data: []byte{1, 2, 3}, solo: true})
			cl.SetReadDeadline(time.Now().Add(-time.Millisecond))
			n, err = cl.Read(make([]byte, 8))
		})
		s.Run()
		s.Drain()
		if n != 0 || !errors.Is(err, os.ErrDeadlineExceeded) {
			t.Fatalf("Read with a deadline in the past returned %d, %v", n, err)
		}
	})
}
