package sim

// Scenario family `devnet`: several simulated servers x unit ids, each a reference
// device with its own memory; real clients reach them through DialContextFunc.
// Serves C05 (builder-extracted fields equal device memory), C11 and C13.

import (
	"context"
	"encoding/binary"
	"fmt"
	"math"
	"net"
	"sort"
	"sync"
	"time"

	modbus "github.com/aldas/go-modbus-client"
	"github.com/aldas/go-modbus-client/packet"
)

// DevNet is a set of devices addressable by (server address, unit id).
type DevNet struct {
	s       *Sim
	seed    uint64
	mu      sync.Mutex
	devices map[string]*Device
	seq     int
	// ShortAnswer, if set, lets the scenario truncate a read reply: it returns the number of registers to send (<=0: all).
	ShortAnswer func(server string, unit byte, pdu []byte) int
	// Observed requests (wire monitor)
	Seen         []SeenReq
	ASCIIEvery   int
	SpecialEvery int
}

type SeenReq struct {
	Server string
	Unit   byte
	PDU    []byte
	TID    uint16
}

func NewDevNet(s *Sim, seed uint64) *DevNet {
	return &DevNet{s: s, seed: seed, devices: map[string]*Device{}}
}

func (dn *DevNet) Device(server string, unit byte) *Device {
	dn.mu.Lock()
	defer dn.mu.Unlock()
	key := fmt.Sprintf("%s/%d", server, unit)
	d := dn.devices[key]
	if d == nil {
		d = NewDevice(Mix(dn.seed, HashString(server), uint64(unit)))
		d.ASCIIEvery = dn.ASCIIEvery
		d.SpecialEvery = dn.SpecialEvery
		dn.devices[key] = d
	}
	return d
}

// Dial returns the client end of a fresh connection to server; a device task serves the other end.
func (dn *DevNet) Dial(server string, fr Framing) net.Conn {
	dn.mu.Lock()
	dn.seq++
	k := dn.seq
	dn.mu.Unlock()
	cl, dev := NewPipe(dn.s, fmt.Sprintf("n%d", k))
	cl.Name = fmt.Sprintf("n%d.cli", k)
	dev.Name = fmt.Sprintf("n%d.dev", k)
	dn.s.Go(fmt.Sprintf("netdev%d", k), true, func(tk *Task) {
		var buf []byte
		tmp := make([]byte, 600)
		for {
			n, err := dev.Read(tmp)
			buf = append(buf, tmp[:n]...)
			for {
				var frame, pdu []byte
				var tid uint16
				var unit byte
				if fr == TCP {
					if len(buf) < 7 {
						break
					}
					l := int(binary.BigEndian.Uint16(buf[4:]))
					if len(buf) < 6+l {
						break
					}
					frame, buf = buf[:6+l], buf[6+l:]
					var ok bool
					tid, unit, pdu, ok = UnframeTCP(frame)
					if !ok {
						continue
					}
				} else {
					l := rtuRequestLen(buf)
					if l == 0 || len(buf) < l {
						break
					}
					frame, buf = buf[:l], buf[l:]
					if !RTUConsistent(frame) {
						continue
					}
					unit, pdu = frame[0], frame[1:len(frame)-2]
				}
				dn.mu.Lock()
				dn.Seen = append(dn.Seen, SeenReq{Server: server, Unit: unit, PDU: append([]byte(nil), pdu...), TID: tid})
				short := dn.ShortAnswer
				dn.mu.Unlock()
				rp := dn.Device(server, unit).Exec(pdu)
				closeAfter := false
				if short != nil && (pdu[0] == 3 || pdu[0] == 4) && !IsExceptionPDU(rp) {
					if r := short(server, unit, pdu); r > 0 && 2*r < len(rp)-2 {
						rp = append([]byte{rp[0], byte(2 * r)}, rp[2:2+2*r]...)
						closeAfter = true
					}
				}
				var reply []byte
				if fr == TCP {
					reply = FrameTCP(tid, unit, rp)
				} else {
					reply = FrameRTU(unit, rp)
				}
				if _, err := dev.Write(reply); err != nil {
					return
				}
				if closeAfter {
					dev.Close()
					return
				}
			}
			if err != nil {
				return
			}
		}
	})
	return cl
}

// rtuRequestLen: length of the RTU request frame at the start of buf (0 = not determinable yet).
func rtuRequestLen(buf []byte) int {
	if len(buf) < 2 {
		return 0
	}
	switch buf[1] {
	case 1, 2, 3, 4, 5, 6:
		return 8
	case 15, 16:
		if len(buf) < 7 {
			return 0
		}
		return 9 + int(buf[6])
	case 17:
		return 4
	case 23:
		if len(buf) < 11 {
			return 0
		}
		return 13 + int(buf[10])
	}
	return 8
}

// ---- reference typed decode (the semantics the library documents; see DESIGN.md §2.5) ----

// RefDecode returns the value of field f read directly from the device's register table tab.
// ok=false when the field's registers are not all inside the 16-bit address space.
func RefDecode(d *Device, tab int, f modbus.Field) (any, bool) {
	size := refFieldRegs(f)
	if int(f.Address)+size > 65536 {
		return nil, false
	}
	regs := make([]uint16, size)
	for i := range regs {
		regs[i] = d.Reg(tab, f.Address+uint16(i))
	}
	return RefDecodeRegs(regs, f), true
}

func refFieldRegs(f modbus.Field) int {
	switch f.Type {
	case modbus.FieldTypeUint32, modbus.FieldTypeInt32, modbus.FieldTypeFloat32:
		return 2
	case modbus.FieldTypeUint64, modbus.FieldTypeInt64, modbus.FieldTypeFloat64:
		return 4
	case modbus.FieldTypeString:
		return (int(f.Length) + 1) / 2
	}
	return 1
}

// RefDecodeRegs decodes f from its own registers (regs[0] is the register at f.Address).
func RefDecodeRegs(regs []uint16, f modbus.Field) any {
	bo := f.ByteOrder
	if bo == 0 {
		bo = packet.BigEndianHighWordFirst
	}
	// multi-register value: LowWordFirst reverses the register order; LittleEndian reads the resulting bytes little-endian
	wide := func(n int) uint64 {
		b := make([]byte, 0, 2*n)
		for i := 0; i < n; i++ {
			r := regs[i]
			if bo&packet.LowWordFirst != 0 {
				r = regs[n-1-i]
			}
			b = append(b, byte(r>>8), byte(r))
		}
		var v uint64
		if bo&packet.LittleEndian != 0 {
			for i := len(b) - 1; i >= 0; i-- {
				v = v<<8 | uint64(b[i])
			}
		} else {
			for i := 0; i < len(b); i++ {
				v = v<<8 | uint64(b[i])
			}
		}
		return v
	}
	r0 := regs[0]
	switch f.Type {
	case modbus.FieldTypeBit:
		return r0&(1<<f.Bit) != 0
	case modbus.FieldTypeByte, modbus.FieldTypeUint8:
		if f.FromHighByte {
			return uint8(r0 >> 8)
		}
		return uint8(r0)
	case modbus.FieldTypeInt8:
		if f.FromHighByte {
			return int8(r0 >> 8)
		}
		return int8(r0)
	case modbus.FieldTypeUint16:
		return r0
	case modbus.FieldTypeInt16:
		return int16(r0)
	case modbus.FieldTypeUint32:
		return uint32(wide(2))
	case modbus.FieldTypeInt32:
		return int32(uint32(wide(2)))
	case modbus.FieldTypeFloat32:
		return math.Float32frombits(uint32(wide(2)))
	case modbus.FieldTypeUint64:
		return wide(4)
	case modbus.FieldTypeInt64:
		return int64(wide(4))
	case modbus.FieldTypeFloat64:
		return math.Float64frombits(wide(4))
	case modbus.FieldTypeString:
		// BigEndian strings: the two bytes of each register are swapped; stop at the first NUL; one rune per byte
		var bs []byte
		for _, r := range regs {
			if bo&packet.BigEndian != 0 {
				bs = append(bs, byte(r), byte(r>>8))
			} else {
				bs = append(bs, byte(r>>8), byte(r))
			}
		}
		bs = bs[:f.Length]
		var rs []rune
		for _, b := range bs {
			if b == 0 {
				break
			}
			rs = append(rs, rune(b))
		}
		return string(rs)
	}
	return nil
}

func sameValue(a, b any) bool {
	switch x := a.(type) {
	case float32:
		y, ok := b.(float32)
		return ok && math.Float32bits(x) == math.Float32bits(y)
	case float64:
		y, ok := b.(float64)
		return ok && math.Float64bits(x) == math.Float64bits(y)
	}
	return a == b
}

var regFieldTypes = []modbus.FieldType{modbus.FieldTypeBit, modbus.FieldTypeByte, modbus.FieldTypeUint8, modbus.FieldTypeInt8, modbus.FieldTypeUint16, modbus.FieldTypeInt16,
	modbus.FieldTypeUint32, modbus.FieldTypeInt32, modbus.FieldTypeUint64, modbus.FieldTypeInt64, modbus.FieldTypeFloat32, modbus.FieldTypeFloat64, modbus.FieldTypeString}

// byte orders a field or a view may carry: the four named combinations, an endianness alone, and a word order alone (each flag means what it says; what is not said is the default)
var byteOrders = []packet.ByteOrder{0, packet.BigEndianHighWordFirst, packet.BigEndianLowWordFirst, packet.LittleEndianHighWordFirst, packet.LittleEndianLowWordFirst, packet.BigEndian, packet.LittleEndian, packet.LowWordFirst, packet.HighWordFirst}

func fieldTypeName(t modbus.FieldType) string {
	return [...]string{"?", "bit", "byte", "uint8", "int8", "uint16", "int16", "uint32", "int32", "uint64", "int64", "float32", "float64", "string", "coil"}[t]
}

// genRegField draws one valid register field near base.
func genRegField(t *Tape, base int, idx int) modbus.Field {
	f := modbus.Field{Name: fmt.Sprintf("f%d", idx)}
	f.Type = regFieldTypes[t.Choose(len(regFieldTypes))]
	switch f.Type {
	case modbus.FieldTypeBit:
		f.Bit = uint8(t.Choose(16))
	case modbus.FieldTypeByte, modbus.FieldTypeUint8, modbus.FieldTypeInt8:
		f.FromHighByte = t.Choose(2) == 1
	case modbus.FieldTypeString:
		switch t.Pick(4, 2, 1) {
		case 0:
			f.Length = uint8(1 + t.Choose(12))
		case 1:
			f.Length = uint8(1 + t.Choose(60))
		default:
			f.Length = uint8(1 + t.Choose(250))
		}
		f.ByteOrder = byteOrders[t.Choose(len(byteOrders))]
	case modbus.FieldTypeUint16, modbus.FieldTypeInt16:
		// byte order flags are documented as irrelevant for 16-bit fields: not generated
	default:
		f.ByteOrder = byteOrders[t.Choose(len(byteOrders))]
	}
	size := refFieldRegs(f)
	a := base + t.Choose(40) - 8
	if t.Chance(1, 6) {
		a = base
	}
	if a < 0 {
		a = 0
	}
	if a+size > 65536 {
		a = 65536 - size
	}
	f.Address = uint16(a)
	return f
}

func sortBuilderRequests(reqs []modbus.BuilderRequest) {
	sort.SliceStable(reqs, func(i, j int) bool {
		a, b := reqs[i], reqs[j]
		if a.ServerAddress != b.ServerAddress {
			return a.ServerAddress < b.ServerAddress
		}
		if a.UnitID != b.UnitID {
			return a.UnitID < b.UnitID
		}
		if a.StartAddress != b.StartAddress {
			return a.StartAddress < b.StartAddress
		}
		return len(a.Fields) < len(b.Fields)
	})
}

// netClient builds a real network client of the given framing wired to the device network.
func netClient(dn *DevNet, fr Framing, readTimeout time.Duration) *modbus.Client {
	conf := modbus.ClientConfig{ReadTimeout: readTimeout, WriteTimeout: time.Second,
		DialContextFunc: func(_ context.Context, address string) (net.Conn, error) { return dn.Dial(address, fr), nil }}
	if fr == TCP {
		return modbus.NewTCPClientWithConfig(conf)
	}
	return modbus.NewRTUClientWithConfig(conf)
}
