package sim

// Bridge from spec-level request descriptions to the library's public constructors.

import (
	"fmt"

	"github.com/aldas/go-modbus-client/packet"
)

type Framing int

const (
	TCP Framing = iota
	RTU
)

func (f Framing) String() string {
	if f == TCP {
		return "tcp"
	}
	return "rtu"
}

// BuildLibRequest builds the request through the library's public constructor and pins the transaction id.
func BuildLibRequest(r Req, unit byte, tid uint16, fr Framing) (packet.Request, error) {
	if fr == TCP {
		switch r.FC {
		case 1:
			q, err := packet.NewReadCoilsRequestTCP(unit, r.Addr, r.Qty)
			if err != nil {
				return nil, err
			}
			q.TransactionID = tid
			return q, nil
		case 2:
			q, err := packet.NewReadDiscreteInputsRequestTCP(unit, r.Addr, r.Qty)
			if err != nil {
				return nil, err
			}
			q.TransactionID = tid
			return q, nil
		case 3:
			q, err := packet.NewReadHoldingRegistersRequestTCP(unit, r.Addr, r.Qty)
			if err != nil {
				return nil, err
			}
			q.TransactionID = tid
			return q, nil
		case 4:
			q, err := packet.NewReadInputRegistersRequestTCP(unit, r.Addr, r.Qty)
			if err != nil {
				return nil, err
			}
			q.TransactionID = tid
			return q, nil
		case 5:
			q, err := packet.NewWriteSingleCoilRequestTCP(unit, r.Addr, r.Qty == 0xFF00)
			if err != nil {
				return nil, err
			}
			q.TransactionID = tid
			return q, nil
		case 6:
			q, err := packet.NewWriteSingleRegisterRequestTCP(unit, r.Addr, []byte{byte(r.Qty >> 8), byte(r.Qty)})
			if err != nil {
				return nil, err
			}
			q.TransactionID = tid
			return q, nil
		case 15:
			q, err := packet.NewWriteMultipleCoilsRequestTCP(unit, r.Addr, r.Coils)
			if err != nil {
				return nil, err
			}
			q.TransactionID = tid
			return q, nil
		case 16:
			q, err := packet.NewWriteMultipleRegistersRequestTCP(unit, r.Addr, r.Regs)
			if err != nil {
				return nil, err
			}
			q.TransactionID = tid
			return q, nil
		case 17:
			q, err := packet.NewReadServerIDRequestTCP(unit)
			if err != nil {
				return nil, err
			}
			q.TransactionID = tid
			return q, nil
		case 23:
			q, err := packet.NewReadWriteMultipleRegistersRequestTCP(unit, r.Addr, r.Qty, r.WAddr, r.Regs)
			if err != nil {
				return nil, err
			}
			q.TransactionID = tid
			return q, nil
		}
		return nil, fmt.Errorf("no constructor for fc %d", r.FC)
	}
	switch r.FC {
	case 1:
		return nilIfErr(packet.NewReadCoilsRequestRTU(unit, r.Addr, r.Qty))
	case 2:
		return nilIfErr(packet.NewReadDiscreteInputsRequestRTU(unit, r.Addr, r.Qty))
	case 3:
		return nilIfErr(packet.NewReadHoldingRegistersRequestRTU(unit, r.Addr, r.Qty))
	case 4:
		return nilIfErr(packet.NewReadInputRegistersRequestRTU(unit, r.Addr, r.Qty))
	case 5:
		return nilIfErr(packet.NewWriteSingleCoilRequestRTU(unit, r.Addr, r.Qty == 0xFF00))
	case 6:
		return nilIfErr(packet.NewWriteSingleRegisterRequestRTU(unit, r.Addr, []byte{byte(r.Qty >> 8), byte(r.Qty)}))
	case 15:
		return nilIfErr(packet.NewWriteMultipleCoilsRequestRTU(unit, r.Addr, r.Coils))
	case 16:
		return nilIfErr(packet.NewWriteMultipleRegistersRequestRTU(unit, r.Addr, r.Regs))
	case 17:
		return nilIfErr(packet.NewReadServerIDRequestRTU(unit))
	case 23:
		return nilIfErr(packet.NewReadWriteMultipleRegistersRequestRTU(unit, r.Addr, r.Qty, r.WAddr, r.Regs))
	}
	return nil, fmt.Errorf("no constructor for fc %d", r.FC)
}

func nilIfErr[T packet.Request](q T, err error) (packet.Request, error) {
	if err != nil {
		return nil, err
	}
	return q, nil
}

var AllFCs = []byte{1, 2, 3, 4, 5, 6, 15, 16, 17, 23}

// pickQty draws a quantity in [1,max] biased to the limits; 1 is simplest.
func pickQty(t *Tape, max int) int {
	switch t.Pick(3, 3, 2, 2) {
	case 0:
		return 1 + t.Choose(min(max, 10))
	case 1:
		return 1 + t.Choose(max)
	case 2:
		return max - t.Choose(min(max, 3))
	default:
		c := []int{1, 7, 8, 9, 16, 17, max / 2, max - 1, max}
		v := c[t.Choose(len(c))]
		if v < 1 {
			v = 1
		}
		if v > max {
			v = max
		}
		return v
	}
}

// GenLegalReq draws a request that is legal under the specification and that the
// library's constructors are expected to accept.
func GenLegalReq(t *Tape, fc byte) Req {
	r := Req{FC: fc}
	addrFor := func(q int) uint16 {
		a := int(t.U16())
		if a+q > 65536 {
			a = 65536 - q
		}
		return uint16(a)
	}
	switch fc {
	case 1, 2:
		q := pickQty(t, 2000)
		r.Qty = uint16(q)
		r.Addr = addrFor(q)
	case 3, 4:
		q := pickQty(t, 125)
		r.Qty = uint16(q)
		r.Addr = addrFor(q)
	case 5:
		r.Addr = t.U16()
		if t.Choose(2) == 1 {
			r.Qty = 0xFF00
		}
	case 6:
		r.Addr = t.U16()
		r.Qty = uint16(t.Choose(65536))
	case 15:
		q := pickQty(t, 1968)
		r.Addr = addrFor(q)
		r.Coils = make([]bool, q)
		mode := t.Choose(3)
		for i := range r.Coils {
			switch mode {
			case 0:
				r.Coils[i] = t.Choose(2) == 1
			case 1:
				r.Coils[i] = i%3 == 0
			default:
				r.Coils[i] = true
			}
		}
	case 16:
		q := pickQty(t, 123)
		r.Addr = addrFor(q)
		r.Regs = t.Bytes(2 * q)
		headerLikeData(t, r.Regs)
	case 17:
	case 23:
		q := pickQty(t, 124)
		r.Qty = uint16(q)
		r.Addr = addrFor(q)
		wq := pickQty(t, 121)
		r.WAddr = addrFor(wq)
		r.Regs = t.Bytes(2 * wq)
		headerLikeData(t, r.Regs)
	}
	return r
}

// SmallReq shrinks a legal request to a small one of the same function (short frames: dense cut / corruption coverage).
func SmallReq(r *Req) {
	switch r.FC {
	case 1, 2:
		r.Qty = 9
	case 3, 4:
		r.Qty = 2
	case 15:
		r.Coils = r.Coils[:min(len(r.Coils), 9)]
		for len(r.Coils) < 9 {
			r.Coils = append(r.Coils, len(r.Coils)%2 == 0)
		}
	case 16:
		r.Regs = append(r.Regs[:0:0], r.Regs[:min(len(r.Regs), 4)]...)
		for len(r.Regs) < 4 {
			r.Regs = append(r.Regs, byte(len(r.Regs)))
		}
	case 23:
		r.Qty = 2
		r.Regs = append(r.Regs[:0:0], r.Regs[:2]...)
	}
	if r.FC != 5 && r.FC != 6 && int(r.Addr)+2000 > 65536 {
		r.Addr = 100
	}
	if r.FC == 23 && int(r.WAddr)+200 > 65536 {
		r.WAddr = 200
	}
}

// headerLikeData: register values are the application's business; sometimes they spell what could be taken for a
// complete little request frame, an exception reply or a run of zeros / 0xFF.
func headerLikeData(t *Tape, data []byte) {
	if len(data) < 2 || !t.Chance(1, 8) {
		return
	}
	var pat []byte
	switch t.Choose(4) {
	case 0:
		pat = []byte{0, 1, 0, 0, 0, 6, 1, 3, 0, 0, 0, 1} // a read-holding-registers request
	case 1:
		pat = []byte{0, 0, 0, 0, 0, 3, 0, 1} // registers 0, 0, 3, 1: reads like a header announcing 3 bytes
	case 2:
		pat = []byte{0, 2, 0, 0, 0, 3, 1, 0x83, 2} // an exception reply
	default:
		pat = []byte{0xFF, 0xFF, 0, 0, 0xFF, 0xFF, 0, 0}
	}
	off := 2 * t.Choose(len(data)/2)
	if t.Chance(1, 2) {
		off = 0
	}
	copy(data[off:], pat)
}
