package sim

// C15 — the TCP server answers each request once and in order, whatever the segmentation.

import (
	"bytes"
	"fmt"
	"time"
)

func init() {
	Register(&Property{ID: "C15", Run: runC15, Strata: strataC15, Sweep: sweepC15})
}

// sweepC15 enumerates complete cut sets of short request streams (no pauses, no server-side cuts, so the client's
// write boundaries are exactly the server's read boundaries):
//   - one request of each function with a 12-byte frame (FC1-FC6) or 8-byte frame (FC17): all 2^(n-1) cut sets;
//   - one small FC15 / FC16 / FC23 request (15 / 17 / 19 bytes): every single cut and every pair of cuts;
//   - two 12-byte requests sent back to back (24 bytes), pipelined: every single cut and every pair of cuts.
func sweepC15(tier string) []Stratum {
	var out []Stratum
	base := func(fc int, nreq int32, pip int32, mask int32) Stratum {
		return Stratum{Named: map[string]int32{"nconn": 0, "tidbase": 0, "pipelined": pip, "cutmode": 6, "nreq": nreq, "fc": int32(fc), "small": 1,
			"cutmask": mask, "gapsel": 0, "srvcut": 0, "lat": 0, "rt": 0}}
	}
	lens := []int{12, 12, 12, 12, 12, 12, 15, 17, 8, 19} // index into AllFCs -> frame length of the small request
	for fi, n := range lens {
		if n <= 12 {
			for m := int32(0); m < 1<<uint(n-1); m++ {
				out = append(out, base(fi, 0, 0, m))
			}
			continue
		}
		for a := 0; a < n-1; a++ {
			out = append(out, base(fi, 0, 0, 1<<uint(a)))
			for b := a + 1; b < n-1; b++ {
				out = append(out, base(fi, 0, 0, 1<<uint(a)|1<<uint(b)))
			}
		}
	}
	for _, fi := range []int{2, 5} {
		for a := 0; a < 23; a++ {
			out = append(out, base(fi, 1, 1, 1<<uint(a)))
			for b := a + 1; b < 23; b++ {
				out = append(out, base(fi, 1, 1, 1<<uint(a)|1<<uint(b)))
				if tier == "thorough" {
					for c := b + 1; c < 23; c++ {
						out = append(out, base(fi, 1, 1, 1<<uint(a)|1<<uint(b)|1<<uint(c)))
					}
				}
			}
		}
	}
	return out
}

// strata: the first draws of genC15: connection count (forced to 1), tid base, pipelined?, cut mode.
func strataC15(tier string) [][]int32 {
	var out [][]int32
	for pip := 0; pip < 2; pip++ {
		for cut := 0; cut < 6; cut++ {
			out = append(out, []int32{0, 5, int32(pip), int32(cut)})
		}
	}
	return out
}

type c15Info struct {
	CutClass []string // per connection
	FC17     []bool
}

func genValidSrvReq(t *Tape, fc byte, unit byte, tid uint16) (SrvReq, bool) {
	r := GenLegalReq(t, fc)
	if t.ChooseAs("small", 4) == 1 {
		SmallReq(&r)
	}
	lr, err := BuildLibRequest(r, unit, tid, TCP)
	if err != nil {
		return SrvReq{}, false
	}
	return SrvReq{Frame: lr.Bytes(), FC: fc, TID: tid, Unit: unit, Class: "valid"}, true
}

// genBigWriteReq: a write request at or just below the largest size the function allows (222-259 bytes on the wire).
func genBigWriteReq(t *Tape, fc byte, unit byte, tid uint16) (SrvReq, bool) {
	r := Req{FC: fc, Addr: uint16(t.Choose(60000))}
	switch fc {
	case 15:
		n := 1968 - t.Choose(200)
		r.Coils = make([]bool, n)
		for i := range r.Coils {
			r.Coils[i] = i%3 == 0
		}
	case 16:
		r.Regs = t.Bytes(2 * (123 - t.Choose(16)))
	case 23:
		r.Qty, r.WAddr = uint16(1+t.Choose(10)), uint16(t.Choose(60000))
		r.Regs = t.Bytes(2 * (121 - t.Choose(14)))
	}
	lr, err := BuildLibRequest(r, unit, tid, TCP)
	if err != nil {
		return SrvReq{}, false
	}
	return SrvReq{Frame: lr.Bytes(), FC: fc, TID: tid, Unit: unit, Class: "valid"}, true
}

func genC15(t *Tape) (*SrvScenario, *c15Info, bool) {
	sc := &SrvScenario{}
	nconn := 1 + t.PickAs("nconn", 5, 3, 2)
	tidBase := 1 + t.ChooseAs("tidbase", 60000)
	info := &c15Info{}
	// a long session: one connection that stays open for some hundred requests (a poller's working day), so that
	// whatever the server keeps per connection - buffers, windows, counters - is used far beyond its first few frames
	longSession := 0
	if !t.Has("nconn") && !t.Has("nreq") && !t.Has("cutmode") && !t.Has("fc") && t.Chance(1, 70) {
		longSession = 90 + t.Choose(340)
		nconn = 1
		sc.LongPauses = true
	}
	for ci := 0; ci < nconn; ci++ {
		plan := SrvConnPlan{}
		plan.Pipelined = t.ChooseAs("pipelined", 2) == 1
		cutMode := t.ChooseAs("cutmode", 6)
		if t.Has("cutmode") {
			cutMode = int(t.Named["cutmode"])
		}
		nreq := 1 + t.PickAs("nreq", 4, 3, 2, 1, 1, 1)
		bigBurst := false
		if plan.Pipelined && !t.Has("nreq") && !t.Has("cutmode") && t.Chance(1, 12) {
			// a burst of large writes sent back to back: several hundred bytes in flight at once
			bigBurst = true
			nreq = 3 + t.Choose(6)
		}
		if longSession > 0 {
			nreq, bigBurst = longSession, false
			if cutMode == 3 || cutMode == 6 {
				cutMode = 4
			}
		}
		fc17 := false
		for ri := 0; ri < nreq; ri++ {
			fc := AllFCs[t.ChooseAs("fc", len(AllFCs))]
			if bigBurst {
				fc = []byte{16, 16, 15, 23}[t.Choose(4)]
			}
			// small requests most of the time: the cut space of short streams is what matters
			tid := uint16(tidBase + ci*16 + ri)
			if longSession > 0 && t.Chance(3, 4) {
				fc = []byte{3, 4, 1, 6}[t.Choose(4)] // mostly the short read requests of a poller
			}
			r, ok := genValidSrvReq(t, fc, byte(1+ci), tid)
			if bigBurst {
				r, ok = genBigWriteReq(t, fc, byte(1+ci), tid)
			}
			if !ok {
				return nil, nil, false
			}
			if !bigBurst && !t.Has("fc") && t.Chance(1, 10) {
				// a frame with an unsupported function code in the stream: answered with an exception, and - like any
				// other request - it must neither be answered early nor leave anything behind that disturbs the next one
				r = genC16Req(t, "unsupported_fc", 0, byte(1+ci), tid)
			}
			if fc == 17 {
				fc17 = true
			}
			plan.Reqs = append(plan.Reqs, r)
		}
		total := 0
		var bounds []int
		for _, r := range plan.Reqs {
			total += len(r.Frame)
			bounds = append(bounds, total)
		}
		// cut plan over the concatenated stream; lock-step clients never write past a frame boundary
		var cuts []int // cumulative positions (exclusive of 0 and total)
		addFrameBounds := func() {
			for _, b := range bounds[:len(bounds)-1] {
				cuts = append(cuts, b)
			}
		}
		switch cutMode {
		case 0: // every frame whole
			addFrameBounds()
		case 1: // one cut inside the header of one frame
			addFrameBounds()
			k := t.Choose(len(bounds))
			start := bounds[k] - len(plan.Reqs[k].Frame)
			cuts = append(cuts, start+1+t.Choose(7))
		case 2: // one cut inside the body of one frame
			addFrameBounds()
			k := t.Choose(len(bounds))
			fl := len(plan.Reqs[k].Frame)
			start := bounds[k] - fl
			if fl > 9 {
				cuts = append(cuts, start+8+t.Choose(fl-8))
			} else {
				cuts = append(cuts, start+8)
			}
		case 3: // byte by byte (short streams) or dense random
			for p := 1; p < total; p++ {
				if total <= 40 || t.Chance(1, 3) {
					cuts = append(cuts, p)
				}
			}
		case 4: // random cuts
			addFrameBounds()
			den := 2 + t.Choose(12)
			for p := 1; p < total; p++ {
				if t.Chance(1, den) {
					cuts = append(cuts, p)
				}
			}
		case 6: // explicit cut set (exhaustive sweeps): bit i set = a cut after byte i+1
			mask := t.ChooseAs("cutmask", 1<<23)
			for p := 1; p < total; p++ {
				if mask&(1<<uint(p-1)) != 0 {
					cuts = append(cuts, p)
				}
			}
		case 5: // pipelined only: several frames per write, a write ending inside the next frame
			if plan.Pipelined {
				for p := 1; p < total; p++ {
					if t.Chance(1, 20) {
						cuts = append(cuts, p)
					}
				}
			} else {
				addFrameBounds()
			}
		}
		if !plan.Pipelined {
			addFrameBounds()
		}
		// normalise: sort, dedupe
		seen := map[int]bool{}
		var cs []int
		for p := 1; p < total; p++ {
			for _, c := range cuts {
				if c == p && !seen[p] {
					seen[p] = true
					cs = append(cs, p)
				}
			}
		}
		prev := 0
		for _, c := range append(cs, total) {
			plan.Writes = append(plan.Writes, c-prev)
			g := time.Duration(0)
			sel := t.PickAs("gapsel", 5, 2, 2)
			if longSession > 0 && !t.Chance(1, 10) {
				sel = 0
			}
			switch sel {
			case 1:
				g = time.Duration(100+t.Choose(900)) * time.Microsecond
			case 2:
				g = time.Duration(2+t.Choose(30)) * time.Millisecond // several server read deadlines
			}
			plan.Gaps = append(plan.Gaps, g)
			prev = c
		}
		if !t.Has("cutmode") && longSession == 0 && len(plan.Gaps) >= 2 && t.Chance(1, 40) {
			// a slow talker: two pauses of 13-20 simulated seconds (each below the server's 25 s idle limit, together above it)
			for k := 0; k < 2; k++ {
				plan.Gaps[1+t.Choose(len(plan.Gaps)-1)] = time.Duration(13000+t.Choose(7000)) * time.Millisecond
			}
			sc.LongPauses = true
		}
		// classify the first cut that is not a frame boundary
		cls := "none"
		for _, c := range cs {
			isBound := false
			start := 0
			for _, b := range bounds {
				if c == b {
					isBound = true
				}
				if b <= c {
					start = b
				}
			}
			if isBound {
				continue
			}
			if c-start < 8 {
				cls = "hdr"
			} else {
				cls = "body"
			}
			break
		}
		if cls == "none" && plan.Pipelined && len(plan.Writes) < len(plan.Reqs) {
			cls = "multi_frame_write"
		}
		info.CutClass = append(info.CutClass, cls)
		info.FC17 = append(info.FC17, fc17)
		sc.Conns = append(sc.Conns, plan)
	}
	sc.ReadTimeout = []time.Duration{0, time.Millisecond, 2 * time.Millisecond, 20 * time.Millisecond}[t.ChooseAs("rt", 4)]
	sc.CutServerReads = t.ChooseAs("srvcut", 2) == 1
	sc.LatencyMax = []time.Duration{0, 100 * time.Microsecond, 3 * time.Millisecond}[t.ChooseAs("lat", 3)]
	sc.TimeoutWithData = t.ChooseAs("twd", 6) == 5
	if !t.Has("cutmask") {
		sc.ScratchReplies = t.Choose(4) == 0
		sc.OwnAssembler = t.Choose(4) == 0
	}
	// some handlers take simulated time, so pipelined bytes pile up while a request is being served
	for ci := range sc.Conns {
		for ri := range sc.Conns[ci].Reqs {
			if !t.Has("cutmask") && t.Chance(1, 5) && (longSession == 0 || t.Chance(1, 8)) {
				sc.Conns[ci].Reqs[ri].Mode = HSlow
				sc.Conns[ci].Reqs[ri].Work = time.Duration(1+t.Choose(30)+60*t.Choose(2)) * time.Millisecond
			}
		}
	}
	return sc, info, true
}

func wholeTwin(sc *SrvScenario) *SrvScenario {
	tw := &SrvScenario{ReadTimeout: sc.ReadTimeout}
	for _, p := range sc.Conns {
		q := SrvConnPlan{Reqs: p.Reqs}
		for _, r := range p.Reqs {
			q.Writes = append(q.Writes, len(r.Frame))
			q.Gaps = append(q.Gaps, 0)
		}
		tw.Conns = append(tw.Conns, q)
	}
	return tw
}

func describeSrv(sc *SrvScenario) map[string]any {
	var conns []map[string]any
	for _, p := range sc.Conns {
		var reqs []string
		for _, r := range p.Reqs {
			reqs = append(reqs, fmt.Sprintf("%s/fc%d/tid%d/%s:%x", r.Class, r.FC, r.TID, r.Mode, trunc(r.Frame, 20)))
		}
		w := p.Writes
		if len(w) > 24 {
			w = w[:24]
		}
		conns = append(conns, map[string]any{"requests": reqs, "pipelined": p.Pipelined, "client_write_sizes": w, "n_writes": len(p.Writes), "skipped": p.Skip})
	}
	return map[string]any{"connections": conns, "server_read_timeout": sc.ReadTimeout.String(), "server_reads_cut": sc.CutServerReads, "latency_max": sc.LatencyMax.String()}
}

// checkReplySequence: oracle (1) — exactly one reply per request, in order, echoing the transaction id.
func checkReplySequence(reqs []SrvReq, received []byte) (class, msg string) {
	frames, rest := SplitTCPStream(received)
	if len(rest) > 0 {
		return "corrupted_reply", fmt.Sprintf("reply stream does not parse as whole ADUs: %d trailing bytes %x after %d frames", len(rest), trunc(rest, 16), len(frames))
	}
	want := map[uint16]int{}
	for _, r := range reqs {
		want[r.TID]++
	}
	for i, f := range frames {
		tid, _, _, ok := UnframeTCP(f)
		if !ok {
			return "corrupted_reply", fmt.Sprintf("reply frame #%d is not a well-formed ADU: %x", i, trunc(f, 16))
		}
		if i < len(reqs) && tid == reqs[i].TID {
			continue
		}
		if want[tid] > 0 {
			// a reply to one of our requests, at the wrong position
			seenBefore := 0
			for _, g := range frames[:i] {
				if t2, _, _, ok := UnframeTCP(g); ok && t2 == tid {
					seenBefore++
				}
			}
			if seenBefore >= want[tid] {
				return "extra_reply", fmt.Sprintf("request tid %d answered more than once (frame #%d)", tid, i)
			}
			if i >= len(reqs) {
				return "extra_reply", fmt.Sprintf("more reply frames (%d) than requests (%d)", len(frames), len(reqs))
			}
			return "reordered", fmt.Sprintf("reply #%d carries tid %d, request #%d has tid %d", i, tid, i, reqs[i].TID)
		}
		if i >= len(reqs) {
			return "extra_reply", fmt.Sprintf("more reply frames (%d) than requests (%d); extra frame %x", len(frames), len(reqs), trunc(f, 16))
		}
		return "corrupted_reply", fmt.Sprintf("reply #%d carries tid %d which is no request's (request #%d has tid %d): %x", i, tid, i, reqs[i].TID, trunc(f, 16))
	}
	if len(frames) < len(reqs) {
		return "missing_reply", fmt.Sprintf("%d requests, %d replies", len(reqs), len(frames))
	}
	return "", ""
}

func runC15(rc *RunCtx) {
	sc, info, ok := genC15(rc.Scen)
	if !ok {
		rc.Probe("ctor_refused")
		return
	}
	devSeed := uint64(rc.Scen.Choose(1 << 30))
	// whole-arrival, lock-step run of the same request lists on the same tree
	tw := wholeTwin(sc)
	rcT := &RunCtx{Prop: rc.Prop, Tier: rc.Tier}
	twin := RunSrv(rcT, tw, ReplayTape(nil), devSeed, nil)
	lens := make([][]int, len(sc.Conns))
	for ci, co := range twin.Conns {
		prev := 0
		for _, a := range co.ReplyAfter {
			lens[ci] = append(lens[ci], a-prev)
			prev = a
		}
	}
	out := RunSrv(rc, sc, rc.Sched, devSeed, lens)
	rc.Hash ^= rcT.Hash * 31
	rc.Steps += rcT.Steps
	rc.SimTime += rcT.SimTime
	rc.Desc = describeSrv(sc)
	rc.Nontrivial = false
	for ci := range sc.Conns {
		if info.CutClass[ci] != "none" || sc.CutServerReads || len(sc.Conns) > 1 {
			rc.Nontrivial = true
		}
		style := "lockstep"
		if sc.Conns[ci].Pipelined {
			style = "pipelined"
		}
		rc.Probe(fmt.Sprintf("%s|cut=%s|srvcut=%v", style, info.CutClass[ci], sc.CutServerReads))
		if info.CutClass[ci] != "none" {
			rc.Fault("request_stream_fragmented:"+info.CutClass[ci], out.Conns[ci].ServerRead > 0)
		}
		if sc.Conns[ci].Pipelined {
			rc.Fault("next_request_sent_early", out.Conns[ci].ServerRead > 0)
		}
	}
	if sc.CutServerReads {
		rc.Fault("server_reads_cut_short", true)
	}
	if sc.TimeoutWithData {
		rc.Fault("server_read_returns_data_with_deadline_error", true)
	}
	if sc.ReadTimeout > 0 {
		rc.Fault("server_read_timeouts_between_fragments", true)
	}
	if out.Hang || out.OverStep {
		rc.Violate("hang", "server_run", "the run did not come to an end: hang=%v (nothing can make progress), overstep=%v (step budget exhausted: something polls without end)", out.Hang, out.OverStep)
	}
	if out.HeldBad != "" {
		rc.Violate("request_changed_after_handling", "handler_kept_request", "%s", out.HeldBad)
	}
	if len(out.Panics) > 0 || len(twin.Panics) > 0 {
		ps := append(out.Panics, twin.Panics...)
		rc.Violate("panic", "harness_task", "panic in %s: %s", ps[0].Task, ps[0].Value)
		return
	}
	for ci := range sc.Conns {
		reqs := sc.Conns[ci].Reqs
		style := "lockstep"
		if sc.Conns[ci].Pipelined {
			style = "pipelined"
		}
		tag := fmt.Sprintf("fc17=%v", info.FC17[ci])
		// the whole-arrival run must itself be right
		if cls, msg := checkReplySequence(reqs, twin.Conns[ci].Received); cls != "" {
			rc.Violate(cls, "seg=whole|"+tag, "whole-frame lock-step arrival, connection %d: %s", ci, msg)
			continue
		}
		// (3) normal replies of the whole-arrival run equal the model device's
		dev := NewDevice(Mix(devSeed, uint64(1+ci), 7))
		frames, _ := SplitTCPStream(twin.Conns[ci].Received)
		for k, r := range reqs {
			_, _, pdu, _ := UnframeTCP(r.Frame)
			model := dev.Exec(pdu)
			_, _, got, ok := UnframeTCP(frames[k])
			if ok && !IsExceptionPDU(got) && !bytes.Equal(got, model) {
				rc.Violate("wrong_reply_content", "seg=whole|"+tag, "request #%d fc %d: server replied %x, the device's answer is %x", k, r.FC, trunc(got, 24), trunc(model, 24))
				break
			}
		}
		co := out.Conns[ci]
		sig := fmt.Sprintf("seg=%s|cut=%s|%s", style, info.CutClass[ci], tag)
		if co.Early != "" {
			rc.Violate("early_reply", sig, "connection %d: %s", ci, co.Early)
		}
		if cls, msg := checkReplySequence(reqs, co.Received); cls != "" {
			rc.Violate(cls, sig, "connection %d (%s, first cut %s, server reads cut=%v): %s", ci, style, info.CutClass[ci], sc.CutServerReads, msg)
			continue
		}
		if !bytes.Equal(co.Received, twin.Conns[ci].Received) {
			rc.Violate("segmentation_dependent", sig, "connection %d: reply stream %x differs from the whole-arrival stream %x", ci, trunc(co.Received, 40), trunc(twin.Conns[ci].Received, 40))
		}
	}
}
