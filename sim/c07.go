package sim

// C07 — clients return the complete reply however the transport fragments it.

import (
	"bytes"
	"errors"
	"fmt"
	"time"

	modbus "github.com/aldas/go-modbus-client"
	"github.com/aldas/go-modbus-client/packet"
)

func init() {
	Register(&Property{ID: "C07", Run: runC07, Strata: strataC07})
}

// strataC07: forced scenario-tape prefixes. Order of draws in genC1Base/genChunks:
// kind, fc index, sizeClass, ... ; the cut plan is forced through rc.Variant instead (see below).
func strataC07(tier string) [][]int32 {
	var out [][]int32
	for kind := 0; kind < 3; kind++ {
		for fi := range AllFCs {
			out = append(out, []int32{int32(kind), int32(fi)})
		}
	}
	return out
}

func genC07(rc *RunCtx) (*C1, bool) {
	t := rc.Scen
	sc, ok := genC1Base(t, true)
	if !ok {
		return sc, false
	}
	sc.Chunks = genChunks(t, len(sc.Reply))
	if sc.Kind != KSerial || true {
		sc.EOFWithLast = t.Chance(1, 10)
	}
	// a timeout must never be legitimate: the whole reply is delivered within half the read timeout
	if need := 2*totalGap(sc.Chunks) + 50*time.Millisecond; sc.ReadTimeout < need {
		sc.ReadTimeout = need
	}
	sc.Hooks = t.Chance(1, 8)
	return sc, true
}

func runC07(rc *RunCtx) {
	sc, ok := genC07(rc)
	if !ok {
		rc.Probe("ctor_refused")
		return
	}
	out := RunC1(rc, sc)
	rc.Desc = sc.describe()
	rc.Nontrivial = len(sc.Chunks) >= 2
	checkC07(rc, sc, out)
}

func cutClass(sc *C1) string {
	n := len(sc.Chunks)
	switch {
	case n == 1:
		return "whole"
	case n == 2:
		last := sc.Chunks[1].N
		if last <= 4 {
			return fmt.Sprintf("last%d", last)
		}
		return "single"
	case n == len(sc.Reply):
		return "bytewise"
	}
	return "multi"
}

func checkC07(rc *RunCtx, sc *C1, out *C1Outcome) {
	fc := sc.Req.FC
	base := fmt.Sprintf("client=%s|fc=%d", sc.Kind, fc)
	kindStr := "normal"
	if sc.IsExc {
		kindStr = "exc"
	}
	rc.Probe(fmt.Sprintf("%s|%s|%s", sc.Kind, kindStr, cutClass(sc)))
	rc.Probe(fmt.Sprintf("fc%d|%s", fc, sc.Kind))
	hasLong := false
	for _, c := range sc.Chunks {
		if c.Gap > 500*time.Microsecond {
			hasLong = true
		}
	}
	if hasLong {
		rc.Probe("empty_reads_between_chunks")
	}
	if out.Panic != nil {
		rc.Violate("panic", base, "panic in %s: %s", out.Panic.Task, out.Panic.Value)
		return
	}
	if !out.Returned {
		rc.Violate("hang", base, "Do did not return (hang=%v overstep=%v)", out.Hang, out.OverStep)
		return
	}
	delta := len(out.Consumed) - len(sc.Reply)
	if sc.IsExc {
		if out.Err == nil {
			rc.Violate("exception_as_success", base, "exception reply %x returned as success", sc.Reply)
			return
		}
		var code int = -1
		if sc.Kind == KTCP {
			var e *packet.ErrorResponseTCP
			if errors.As(out.Err, &e) {
				code = int(e.Code)
			}
		} else {
			var e *packet.ErrorResponseRTU
			if errors.As(out.Err, &e) {
				code = int(e.Code)
			}
		}
		if code < 0 {
			rc.Violate("exception_not_typed", fmt.Sprintf("%s|delta=%d", base, delta),
				"exception reply %x (code %d) surfaced as %T %q; consumed %d of %d bytes", sc.Reply, sc.ExcCode, out.Err, out.Err, len(out.Consumed), len(sc.Reply))
			return
		}
		if code != int(sc.ExcCode) {
			rc.Violate("exception_wrong_code", base, "exception code %d reported as %d", sc.ExcCode, code)
		}
		return
	}
	if out.Err != nil {
		var ce *modbus.ClientError
		isTimeout := errors.As(out.Err, &ce) && ce.Err != nil && ce.Err.Error() == "total read timeout exceeded"
		switch {
		case delta < 0 && !isTimeout:
			rc.Violate("premature_stop", fmt.Sprintf("%s|delta=%d", base, delta),
				"client stopped after %d of %d reply bytes and returned %q", len(out.Consumed), len(sc.Reply), out.Err)
		case isTimeout:
			rc.Violate("timeout_on_complete", fmt.Sprintf("%s|consumed_all=%v", base, delta >= 0),
				"client timed out after %v although the complete reply (%d bytes) was delivered within %v; consumed %d", out.Elapsed, len(sc.Reply), totalGap(sc.Chunks), len(out.Consumed))
		default:
			rc.Violate("error_on_complete", base, "complete correct reply %x rejected: %q", trunc(sc.Reply, 32), out.Err)
		}
		return
	}
	if isNilResponse(out.Resp) {
		rc.Violate("nil_response", base, "Do returned (nil, nil)")
		return
	}
	got := out.Resp.Bytes()
	if !bytes.Equal(got, sc.Reply) || out.Resp.FunctionCode() != fc {
		cls := "wrong_value"
		if delta < 0 {
			cls = "truncated_value"
		}
		rc.Violate(cls, fmt.Sprintf("%s|delta=%d", base, delta),
			"returned response re-encodes to %x, reply was %x (consumed %d of %d bytes)", trunc(got, 40), trunc(sc.Reply, 40), len(out.Consumed), len(sc.Reply))
	}
}
