package sim

// C07 — clients return the complete reply however the transport fragments it.

import (
	"bytes"
	"errors"
	"fmt"
	"io"
	"os"
	"time"

	modbus "github.com/aldas/go-modbus-client"
	"github.com/aldas/go-modbus-client/packet"
)

func init() {
	Register(&Property{ID: "C07", Run: runC07, Strata: strataC07, Sweep: sweepC07})
}

// sweepC07: for every client kind x function x {normal, exception} reply of a small request: every single cut
// position (1..14, wrapping at the reply length) x three delay classes before the second chunk, plus the
// byte-per-read plan. Complete for replies of up to 15 bytes.
func sweepC07(tier string) []Stratum {
	var out []Stratum
	for kind := 0; kind < 3; kind++ {
		for fi := range AllFCs {
			for _, exc := range []int32{0, 4} {
				for p := int32(0); p < 14; p++ {
					for g := int32(0); g < 3; g++ {
						out = append(out, Stratum{Prefix: []int32{int32(kind), int32(fi)}, Named: map[string]int32{"sizeclass": 3, "exc": exc, "cutmode": 1, "cutparam": p, "gap": g}})
					}
				}
				if tier == "thorough" {
					// last k bytes separate (k = 1..4) and every pair of cuts via two forced single cuts is covered by the
					// random part; here additionally: cut positions 1..60 of arbitrary-size replies (random arguments)
					for p := int32(0); p < 60; p++ {
						out = append(out, Stratum{Prefix: []int32{int32(kind), int32(fi)}, Named: map[string]int32{"exc": exc, "cutmode": 1, "cutparam": p, "gap": p % 3}})
					}
					for k := int32(0); k < 4; k++ {
						out = append(out, Stratum{Prefix: []int32{int32(kind), int32(fi)}, Named: map[string]int32{"exc": exc, "cutmode": 2, "cutparam": k, "gap": k % 3}})
					}
				}
				out = append(out, Stratum{Prefix: []int32{int32(kind), int32(fi)}, Named: map[string]int32{"sizeclass": 3, "exc": exc, "cutmode": 3, "gap": 0}})
				out = append(out, Stratum{Prefix: []int32{int32(kind), int32(fi)}, Named: map[string]int32{"sizeclass": 3, "exc": exc, "cutmode": 3, "gap": 1}})
			}
		}
	}
	return out
}

// strataC07: forced scenario-tape prefixes. Order of draws in genC1Base/genChunks:
// kind, fc index, sizeClass, ... ; the cut plan is forced through rc.Variant instead (see below).
func strataC07(tier string) [][]int32 {
	var out [][]int32
	for kind := 0; kind < 3; kind++ {
		for fi := range AllFCs {
			out = append(out, []int32{int32(kind), int32(fi)})
		}
	}
	return out
}

func genC07(rc *RunCtx) (*C1, bool) { return genC07Kind(rc, -1) }

func genC07Kind(rc *RunCtx, kind int) (*C1, bool) {
	t := rc.Scen
	sc, ok := genC1BaseKind(t, true, kind)
	if !ok {
		return sc, false
	}
	sc.Chunks = genChunks(t, len(sc.Reply))
	sc.EOFWithLast = t.Chance(1, 10)
	if sc.Kind == KSerial && t.Chance(1, 4) {
		// serial libraries differ in how they report a timeout that cuts a read short: data together with a tolerated error
		for i := range sc.Chunks {
			if t.Chance(1, 3) {
				sc.Chunks[i].Err = []error{io.EOF, os.ErrDeadlineExceeded}[t.Choose(2)]
			}
		}
	}
	if sc.Kind != KSerial && !t.Has("cutmode") && t.Chance(1, 6) {
		// a connection wrapper (a coalescing or rate-limiting reader) hands over what it has together with the deadline
		// error when the deadline cuts its read short: bytes first, error second, as the io.Reader contract says
		for i := range sc.Chunks {
			if t.Chance(1, 2) {
				sc.Chunks[i].Err = os.ErrDeadlineExceeded
			}
		}
	}
	// a timeout must never be legitimate: the whole reply is delivered within half the read timeout
	if need := 2*totalGap(sc.Chunks) + 50*time.Millisecond; sc.ReadTimeout < need {
		sc.ReadTimeout = need
	}
	if !t.Has("cutmode") && len(sc.Chunks) >= 1 && sc.ReadTimeout <= 500*time.Millisecond && t.Chance(1, 8) {
		// a long silence: the reply completes late, but still clearly inside the read timeout (at 50-93 % of it)
		for i := range sc.Chunks {
			sc.Chunks[i].Gap = 0
		}
		i := t.Choose(len(sc.Chunks))
		sc.Chunks[i].Gap = sc.ReadTimeout * time.Duration(50+t.Choose(44)) / 100
		sc.LongSilence = true
	}
	sc.Hooks = t.Chance(1, 8)
	return sc, true
}

func runC07(rc *RunCtx) {
	sc, ok := genC07(rc)
	if !ok {
		rc.Probe("ctor_refused")
		return
	}
	if sc.Kind != KSerial && !rc.Scen.Has("cutmode") {
		// the application hands the protocol constructor a config that names one of the protocol's own functions explicitly
		sc.ConfOneFunc = []int{0, 0, 0, 1, 2}[rc.Scen.Choose(5)]
	}
	sc.WrappedTimeouts = !rc.Scen.Has("cutmode") && rc.Scen.Choose(3) == 0
	sc.DialCtxBound = sc.Kind != KSerial && !rc.Scen.Has("cutmode") && rc.Scen.Choose(4) == 0 // (the application connects with a context that lives as long as the client)
	if sc.Kind != KSerial && !rc.Scen.Has("cutmode") && !sc.LongSilence && totalGap(sc.Chunks) <= 60*time.Millisecond && rc.Scen.Chance(1, 8) {
		sc.ZeroNilReads = true // a non-blocking connection: empty reads return (0, nil), many of them before the reply is there
		for i := range sc.Chunks {
			sc.Chunks[i].Err = nil
		}
	}
	if sc.Kind != KSerial && sc.ConfOneFunc == 0 && !rc.Scen.Has("cutmode") && rc.Scen.Choose(3) == 0 {
		sc.ObserveParse = true // the client comes from NewClient with the protocol's functions given in the config
	}
	// sometimes a second call follows on the same client; the first response is held across it
	var sc2 *C1
	if !rc.Scen.Has("cutmode") && !sc.LongSilence && rc.Scen.Chance(1, 5) {
		if n, ok := genC07Kind(rc, int(sc.Kind)); ok {
			n.ReadTimeout = sc.ReadTimeout // one client, one configuration
			if need := 2*totalGap(n.Chunks) + 50*time.Millisecond; sc.ReadTimeout < need {
				sc.ReadTimeout, n.ReadTimeout = need, need
			}
			n.PortTimeout, n.TOStyle, n.Flusher, n.WriteTimeout, n.Hooks = sc.PortTimeout, sc.TOStyle, sc.Flusher, sc.WriteTimeout, sc.Hooks
			if rc.Scen.Chance(1, 2) {
				// the client sits idle for longer than its read timeout between the two calls
				n.IdleBefore = sc.ReadTimeout + time.Duration(1+rc.Scen.Choose(50))*time.Millisecond
			}
			if sc.Kind != KSerial {
				n.Reconnect = []int{0, 0, 1, 2}[rc.Scen.Choose(4)] // connected again (after Close or without it) before the second call
			}
			sc.Then, sc2 = n, n
		}
	}
	// sometimes the call under test is not the first on its client: an earlier call was abandoned (the device stayed
	// silent until the read timeout, or the caller's context ended) and nothing of it is left on the line
	if sc2 == nil && !rc.Scen.Has("cutmode") && !sc.LongSilence && rc.Scen.Chance(1, 8) {
		if pre, ok := genC07Kind(rc, int(sc.Kind)); ok {
			pre.ReadTimeout, pre.PortTimeout, pre.TOStyle, pre.Flusher, pre.WriteTimeout, pre.Hooks = sc.ReadTimeout, sc.PortTimeout, sc.TOStyle, sc.Flusher, sc.WriteTimeout, sc.Hooks
			pre.ObserveParse, pre.ConfOneFunc, pre.WrappedTimeouts = sc.ObserveParse, sc.ConfOneFunc, sc.WrappedTimeouts
			sc.ZeroNilReads = false // (an abandoned call would poll such a connection for its whole read timeout)
			pre.Fault = FStall
			pre.Full = pre.Reply
			pre.Reply = pre.Reply[:rc.Scen.Choose(2)*rc.Scen.Choose(len(pre.Reply))] // nothing at all, or a strict prefix
			pre.Chunks = nil
			if len(pre.Reply) > 0 {
				pre.Chunks = []Chunk{{N: len(pre.Reply)}}
			}
			if rc.Scen.Choose(2) == 1 {
				pre.Fault = FCancelAt
				pre.CancelAt = time.Duration(1+rc.Scen.Choose(3000)) * time.Microsecond
			}
			if pre.Fault == FStall && len(pre.Reply) < len(pre.Full) && rc.Scen.Chance(1, 2) {
				// the rest of the abandoned reply arrives after the call has given up; the application waits, and in half
				// of these runs connects again (with or without Close) before it asks again - a new connection knows
				// nothing of the old one's late bytes
				pre.LateRest = pre.Full[len(pre.Reply):]
				sc.IdleBefore = pre.ReadTimeout + time.Duration(60+rc.Scen.Choose(200))*time.Millisecond
				if sc.Kind != KSerial {
					sc.Reconnect = rc.Scen.Choose(3)
				}
			}
			pre.Then = sc
			out := RunC1(rc, pre)
			rc.Desc = sc.describe()
			rc.Desc["after_an_abandoned_call"] = pre.Fault.String()
			rc.Nontrivial = true
			rc.Fault("earlier_call_abandoned:"+pre.Fault.String(), out.Returned && out.Err != nil)
			if out.Panic != nil || !out.Returned || len(out.Next) != 1 {
				rc.Violate("hang", fmt.Sprintf("client=%s|after_abandoned_call", sc.Kind), "the call after an abandoned call did not take place: first returned=%v, hang=%v, panic=%v", out.Returned, out.Hang, out.Panic != nil)
				return
			}
			checkC07(rc, sc, out.Next[0])
			return
		}
	}
	if sc2 == nil && !rc.Scen.Has("cutmode") && rc.Scen.Chance(1, 120) {
		// a long history of other exchanges on the same client comes first (some clients of slow devices: every reply
		// of the history takes a few milliseconds); every response handed out stays what it was
		slow := rc.Scen.Chance(1, 3)
		if slow && sc.ReadTimeout < 250*time.Millisecond {
			sc.ReadTimeout = 250 * time.Millisecond
		}
		hist := genHistory(rc, sc, historyLen(rc.Scen), slow)
		calls := append(append([]*C1(nil), hist...), sc)
		first := RunC1Long(rc, chainCalls(calls))
		rc.Desc = sc.describe()
		rc.Desc["exchanges_before_on_this_client"] = len(hist)
		rc.Desc["history_replies_slow"] = slow
		rc.Nontrivial = true
		base := fmt.Sprintf("client=%s|after_long_history", sc.Kind)
		if first.Panic != nil {
			rc.Violate("panic", base, "panic in %s: %s", first.Panic.Task, first.Panic.Value)
			return
		}
		failed, changed := historyTrouble(hist, first)
		rc.Fault("long_history_before_the_call", failed == "")
		if failed != "" {
			rc.Violate("fails_after_many_calls", base, "%s (hang=%v overstep=%v)", failed, first.Hang, first.OverStep)
			return
		}
		if changed != "" {
			rc.Violate("earlier_response_changed", base, "%s", changed)
		}
		main := outcomeOf(first, len(hist))
		if main == nil {
			rc.Violate("hang", base, "the call after %d healthy exchanges did not take place (hang=%v overstep=%v)", len(hist), first.Hang, first.OverStep)
			return
		}
		checkC07(rc, sc, main)
		return
	}
	if sc2 == nil && !rc.Scen.Has("cutmode") && !sc.LongSilence && !sc.IsExc && totalGap(sc.Chunks) == 0 && rc.Scen.Chance(1, 150) {
		sc.Marathon = 260 + rc.Scen.Choose(80) // past 256 repetitions of the same poll
		sc.ReadTimeout = max(sc.ReadTimeout, 100*time.Millisecond)
	}
	out := RunC1(rc, sc)
	if sc.Marathon > 0 && out.Returned && out.Err == nil {
		rc.Fault("same_poll_repeated_300_times", out.MarathonDone == sc.Marathon)
		if out.MarathonBad != "" || (out.MarathonDone != sc.Marathon && (out.Hang || out.OverStep)) {
			rc.Violate("fails_after_many_calls", fmt.Sprintf("client=%s|fc=%d", sc.Kind, sc.Req.FC), "%s (after %d good repetitions; hang=%v overstep=%v)", out.MarathonBad, out.MarathonDone, out.Hang, out.OverStep)
		}
	}
	rc.Desc = sc.describe()
	rc.Nontrivial = len(sc.Chunks) >= 2
	if out.Err == nil && !isNilResponse(out.Resp) && len(out.Consumed)%2 == 1 {
		logLine(out.Resp) // the application logs what it got; that must be passive
	} else if out.Err != nil && len(out.Consumed)%2 == 1 {
		logLine(out.Err)
	}
	checkC07(rc, sc, out)
	if sc2 != nil && len(out.Next) == 1 {
		rc.Probe("second_call_on_same_client")
		checkC07(rc, sc2, out.Next[0])
		// the response handed out by the first call must not be affected by the second exchange
		if out.Err == nil && !isNilResponse(out.Resp) && !sc.IsExc && bytes.Equal(sc.Reply, sc.Full0()) {
			if got := out.Resp.Bytes(); !bytes.Equal(got, sc.Reply) && len(out.Consumed) == len(sc.Reply) {
				rc.Violate("earlier_response_changed", fmt.Sprintf("client=%s|fc=%d", sc.Kind, sc.Req.FC),
					"after a second call on the same client the first call's response re-encodes to %x, it was %x", trunc(got, 40), trunc(sc.Reply, 40))
			}
		}
	}
}

func cutClass(sc *C1) string {
	n := len(sc.Chunks)
	switch {
	case n == 1:
		return "whole"
	case n == 2:
		last := sc.Chunks[1].N
		if last <= 4 {
			return fmt.Sprintf("last%d", last)
		}
		return "single"
	case n == len(sc.Reply):
		return "bytewise"
	}
	return "multi"
}

func checkC07(rc *RunCtx, sc *C1, out *C1Outcome) {
	fc := sc.Req.FC
	base := fmt.Sprintf("client=%s|fc=%d", sc.Kind, fc)
	kindStr := "normal"
	if sc.IsExc {
		kindStr = "exc"
	}
	rc.Probe(fmt.Sprintf("%s|%s|%s", sc.Kind, kindStr, cutClass(sc)))
	rc.Probe(fmt.Sprintf("fc%d|%s", fc, sc.Kind))
	hasLong := false
	for _, c := range sc.Chunks {
		if c.Gap > 500*time.Microsecond {
			hasLong = true
		}
	}
	if hasLong {
		rc.Probe("empty_reads_between_chunks")
	}
	if sc.LongSilence {
		rc.Probe("long_silence_inside_timeout")
	}
	// what the transport was asked to do to the reply, and whether the client actually met it
	nData, nEmpty, nDataErr, planErr := 0, 0, 0, false
	for _, r := range out.Rec {
		if r.Kind == "read" {
			if r.N > 0 {
				nData++
				if r.Err != nil {
					nDataErr++
				}
			} else if r.Err != nil {
				nEmpty++
			}
		}
	}
	for _, c := range sc.Chunks {
		planErr = planErr || c.Err != nil
	}
	if len(sc.Chunks) >= 2 {
		rc.Fault("reply_split_across_reads", nData >= 2)
	}
	if hasLong {
		rc.Fault("empty_timed_out_reads_between_chunks", nEmpty > 0)
	}
	if planErr {
		rc.Fault("data_with_tolerated_error", nDataErr > 0)
	}
	if sc.LongSilence {
		rc.Fault("silence_close_to_the_read_timeout", nEmpty > 0)
	}
	if sc.Then != nil {
		rc.Fault("further_call_on_same_client", len(out.Next) > 0)
	}
	if out.Panic != nil {
		rc.Violate("panic", base, "panic in %s: %s", out.Panic.Task, out.Panic.Value)
		return
	}
	if !out.Returned {
		rc.Violate("hang", base, "Do did not return (hang=%v overstep=%v)", out.Hang, out.OverStep)
		return
	}
	delta := len(out.Consumed) - len(sc.Reply)
	if sc.IsExc {
		if out.Err == nil {
			rc.Violate("exception_as_success", base, "exception reply %x returned as success", sc.Reply)
			return
		}
		var code int = -1
		if sc.Kind == KTCP {
			var e *packet.ErrorResponseTCP
			if errors.As(out.Err, &e) {
				code = int(e.Code)
			}
		} else {
			var e *packet.ErrorResponseRTU
			if errors.As(out.Err, &e) {
				code = int(e.Code)
			}
		}
		if code < 0 {
			rc.Violate("exception_not_typed", fmt.Sprintf("%s|delta=%d", base, delta),
				"exception reply %x (code %d) surfaced as %T %q; consumed %d of %d bytes", sc.Reply, sc.ExcCode, out.Err, out.Err, len(out.Consumed), len(sc.Reply))
			return
		}
		if code != int(sc.ExcCode) {
			rc.Violate("exception_wrong_code", base, "exception code %d reported as %d", sc.ExcCode, code)
		}
		return
	}
	if out.Err != nil {
		var ce *modbus.ClientError
		isTimeout := errors.As(out.Err, &ce) && ce.Err != nil && ce.Err.Error() == "total read timeout exceeded"
		switch {
		case delta < 0 && !isTimeout:
			rc.Violate("premature_stop", fmt.Sprintf("%s|delta=%d", base, delta),
				"client stopped after %d of %d reply bytes and returned %q", len(out.Consumed), len(sc.Reply), out.Err)
		case isTimeout:
			rc.Violate("timeout_on_complete", fmt.Sprintf("%s|consumed_all=%v", base, delta >= 0),
				"client timed out after %v although the complete reply (%d bytes) was delivered within %v; consumed %d", out.Elapsed, len(sc.Reply), totalGap(sc.Chunks), len(out.Consumed))
		default:
			rc.Violate("error_on_complete", base, "complete correct reply %x rejected: %q", trunc(sc.Reply, 32), out.Err)
		}
		return
	}
	if isNilResponse(out.Resp) {
		rc.Violate("nil_response", base, "Do returned (nil, nil)")
		return
	}
	got := out.Resp.Bytes()
	if !bytes.Equal(got, sc.Reply) || out.Resp.FunctionCode() != fc {
		cls := "wrong_value"
		if delta < 0 {
			cls = "truncated_value"
		}
		rc.Violate(cls, fmt.Sprintf("%s|delta=%d", base, delta),
			"returned response re-encodes to %x, reply was %x (consumed %d of %d bytes)", trunc(got, 40), trunc(sc.Reply, 40), len(out.Consumed), len(sc.Reply))
	}
}
