package sim

// Baton scheduler on top of testing/synctest (see DESIGN.md §2.3).
//
// Every seam parks the calling goroutine on a per-waiter channel. The
// scheduler (bubble root goroutine) waits for quiescence (synctest.Wait),
// collects the parked waiters in canonical order, asks each whether it is
// eligible now (ready, or its wake-up time reached), lets the tape choose one
// and releases it. If none is eligible it advances the fake clock to the
// earliest wake-up (or until something parks).

import (
	"fmt"
	"runtime"
	"sort"
	"strconv"
	"sync"
	"sync/atomic"
	"testing/synctest"
	"time"
)

type Reason int

const (
	Ready   Reason = iota // the awaited condition holds
	Timeout               // the wake-up time was reached first
	Drained               // simulation over
)

// PollFunc is evaluated by the scheduler while nothing else runs.
// It reports whether the waiter can proceed now and, if not, the next
// instant at which it should be polled again (zero = never by time alone).
type PollFunc func(now time.Time) (ok bool, r Reason, next time.Time)

type waiter struct {
	id    string
	label string
	poll  PollFunc
	ch    chan Reason
}

type PanicRec struct {
	Task  string
	Value string
	Stack string
}

type Sim struct {
	mu       sync.Mutex
	Tape     *Tape
	waiters  []*waiter
	kick     chan struct{}
	Step     int
	MaxSteps int
	Horizon  time.Duration
	Start    time.Time

	goids     map[int64]string
	asTaskSeq int
	live      int // foreground tasks not yet finished
	draining  bool
	drainFlag atomic.Bool // race mode: read by every poller (loads do not synchronise with each other)
	gateMu    sync.Mutex
	gates     map[*sync.RWMutex]bool
	Free      bool // race mode: no baton; goroutines run freely inside the bubble and seams wait by polling on the fake clock

	hash    uint64 // FNV-1a over the event log
	fp      uint64 // schedule fingerprint (abstract)
	Trace   []string
	Tracing bool
	buf     []byte

	Panics   []PanicRec
	Hang     bool
	OverStep bool

	// LockObserver, if set, is told about every lock-hook pass in baton mode (named = by a harness task).
	LockObserver func(named bool)

	// Invariant, if set, is evaluated at every quiescent point.
	Invariant func() error
	InvErr    error

	closeBatch []string // unordered effects of the current step (sorted before hashing)

	Counters map[string]int
}

func NewSim(t *Tape) *Sim {
	return &Sim{
		Tape:     t,
		kick:     make(chan struct{}, 1),
		MaxSteps: 20000,
		Horizon:  10 * time.Minute,
		Start:    time.Now(),
		goids:    map[int64]string{},
		gates:    map[*sync.RWMutex]bool{},
		hash:     14695981039346656037,
		fp:       14695981039346656037,
		Counters: map[string]int{},
	}
}

func goid() int64 {
	var b [40]byte
	n := runtime.Stack(b[:], false)
	// "goroutine 123 ["
	s := b[10:n]
	i := 0
	for i < len(s) && s[i] != ' ' {
		i++
	}
	id, _ := strconv.ParseInt(string(s[:i]), 10, 64)
	return id
}

// Now is the simulated time since the start of the run.
func (s *Sim) Now() time.Duration { return time.Since(s.Start) }

func (s *Sim) Count(key string) {
	if s.Free {
		return
	}
	s.mu.Lock()
	s.Counters[key]++
	s.mu.Unlock()
}

// ---- logging (never draws from the tape, never reads another clock) ----

func (s *Sim) mixHash(b []byte) {
	h := s.hash
	for _, c := range b {
		h ^= uint64(c)
		h *= 1099511628211
	}
	h ^= 0xff
	h *= 1099511628211
	s.hash = h
}

func (s *Sim) mixFP(str string) {
	if s.Free {
		return
	}
	h := s.fp
	for i := 0; i < len(str); i++ {
		h ^= uint64(str[i])
		h *= 1099511628211
	}
	h ^= 0xfe
	h *= 1099511628211
	s.fp = h
}

// logLocked appends one event to the run's log. Caller holds s.mu.
func (s *Sim) logLocked(format string, args ...any) {
	if s.Free {
		return // race mode keeps no event log: the caller may hold a per-connection lock instead of s.mu
	}
	if s.draining {
		return // teardown: the goroutines run freely now, the order of what they do is the Go scheduler's, not a tape decision
	}
	s.buf = s.buf[:0]
	s.buf = fmt.Appendf(s.buf, "%d %d ", s.Step, int64(time.Since(s.Start)))
	s.buf = fmt.Appendf(s.buf, format, args...)
	s.mixHash(s.buf)
	if s.Tracing && len(s.Trace) < 4000 {
		s.Trace = append(s.Trace, string(s.buf))
	}
}

// Logf records an event in the deterministic event log.
func (s *Sim) Logf(format string, args ...any) {
	if s.Free {
		return
	}
	s.mu.Lock()
	s.logLocked(format, args...)
	s.mu.Unlock()
}

// LogUnordered records an effect whose order inside one scheduler step is not
// meaningful (e.g. Shutdown closing idle connections in map order); such
// effects are sorted before they enter the hash.
func (s *Sim) LogUnordered(str string) {
	if s.Free {
		return
	}
	s.mu.Lock()
	s.closeBatch = append(s.closeBatch, str)
	s.mu.Unlock()
}

func (s *Sim) flushUnorderedLocked() {
	if len(s.closeBatch) == 0 {
		return
	}
	sort.Strings(s.closeBatch)
	for _, c := range s.closeBatch {
		s.logLocked("%s", c)
	}
	s.closeBatch = s.closeBatch[:0]
}

// FP adds an abstract token to the schedule fingerprint.
func (s *Sim) FP(tok string) {
	if s.Free {
		return
	}
	s.mu.Lock()
	s.mixFP(tok)
	s.mu.Unlock()
}

func (s *Sim) Hash() uint64        { return s.hash }
func (s *Sim) Fingerprint() uint64 { return s.fp }

// ---- task identity ----

// taskOfGoroutine returns the harness task name of the calling goroutine, or "" for
// goroutines the code under test spawned itself. Only the lock hook needs this (it
// receives nothing but the mutex), so the cost of reading the goroutine id is paid
// a handful of times per run.
func (s *Sim) taskOfGoroutine() string {
	g := goid()
	s.mu.Lock()
	defer s.mu.Unlock()
	return s.goids[g]
}

// AsTask runs f with the calling goroutine registered under a harness task name (user code that the code under test
// calls and that calls back into it: its lock passes are the application's, not the library's own).
func (s *Sim) AsTask(name string, f func()) {
	g := goid()
	s.mu.Lock()
	prev, had := s.goids[g]
	s.asTaskSeq++
	s.goids[g] = fmt.Sprintf("%s#%d", name, s.asTaskSeq)
	s.mu.Unlock()
	defer func() {
		s.mu.Lock()
		if had {
			s.goids[g] = prev
		} else {
			delete(s.goids, g)
		}
		s.mu.Unlock()
	}()
	f()
}

// Task is a harness goroutine with a stable name.
type Task struct {
	S    *Sim
	Name string
	rng  uint64
}

// Choose is a tape decision in baton mode and a task-private pseudo-random draw in race mode (a shared tape would
// need a shared lock, and every shared lock adds happens-before edges that hide races).
func (tk *Task) Choose(n int) int {
	if n <= 1 {
		return 0
	}
	if tk.S.Free {
		return int(splitmix(&tk.rng) % uint64(n))
	}
	return tk.S.Choose(n)
}

// Go starts a harness task. Foreground tasks keep the run alive; daemon tasks
// (acceptors, devices) do not. The task's first action is to park, so start
// order is a scheduler decision too.
func (s *Sim) Go(name string, daemon bool, f func(tk *Task)) {
	s.mu.Lock()
	if !daemon {
		s.live++
	}
	s.mu.Unlock()
	go func() {
		g := goid()
		s.mu.Lock()
		s.goids[g] = name
		s.mu.Unlock()
		defer func() {
			if r := recover(); r != nil {
				buf := make([]byte, 4096)
				n := runtime.Stack(buf, false)
				s.mu.Lock()
				s.Panics = append(s.Panics, PanicRec{Task: name, Value: fmt.Sprint(r), Stack: string(buf[:n])})
				s.logLocked("panic task=%s %v", name, r)
				s.mu.Unlock()
			}
			s.mu.Lock()
			if !daemon {
				s.live--
			}
			delete(s.goids, g)
			s.mu.Unlock()
			select {
			case s.kick <- struct{}{}:
			default:
			}
		}()
		tk := &Task{S: s, Name: name, rng: HashString(name) ^ s.Tape.state}
		if !s.Free {
			tk.Yield("start")
		}
		f(tk)
	}()
}

// ---- parking ----

// Park blocks the calling goroutine until the scheduler releases it. id is the
// canonical identity of the waiter (task name, or connection+direction for
// transport calls); a second waiter arriving under the same id gets a numeric
// suffix, which is deterministic because arrivals are serialised by the baton.
func (s *Sim) Park(id, label string, poll PollFunc) Reason { return s.ParkL(id, label, nil, poll) }

// ParkL is Park for waiters whose condition reads state guarded by lk in race mode (ignored in baton mode, where
// the scheduler evaluates every condition while nothing else runs).
func (s *Sim) ParkL(id, label string, lk sync.Locker, poll PollFunc) Reason {
	if s.Free {
		return s.parkFree(lk, poll)
	}
	s.mu.Lock()
	if s.draining {
		s.mu.Unlock()
		return Drained
	}
	base := id
	for n := 2; ; n++ {
		dup := false
		for _, w := range s.waiters {
			if w.id == id {
				dup = true
				break
			}
		}
		if !dup {
			break
		}
		id = base + "#" + strconv.Itoa(n)
	}
	w := &waiter{id: id, label: label, poll: poll, ch: make(chan Reason, 1)}
	s.waiters = append(s.waiters, w)
	s.mu.Unlock()
	select {
	case s.kick <- struct{}{}:
	default:
	}
	return <-w.ch
}

// parkFree is Park in race mode: the caller itself re-evaluates its condition, sleeping on the fake clock in
// between (durable blocking, so simulated time advances when everybody waits). Nothing decides who runs next.
func (s *Sim) parkFree(lk sync.Locker, poll PollFunc) Reason {
	const quantum = 200 * time.Microsecond
	for {
		if s.drainFlag.Load() {
			return Drained
		}
		now := time.Now()
		if lk != nil {
			lk.Lock()
		}
		ok, r, next := poll(now)
		if lk != nil {
			lk.Unlock()
		}
		if ok {
			return r
		}
		d := quantum
		if !next.IsZero() && next.Sub(now) < d {
			d = next.Sub(now)
		}
		if d <= 0 {
			d = time.Microsecond
		}
		time.Sleep(d)
	}
}

// Choose draws from the schedule tape on behalf of a task (safe in race mode).
func (s *Sim) Choose(n int) int {
	s.mu.Lock()
	defer s.mu.Unlock()
	return s.Tape.Choose(n)
}

// StepNow returns the global event sequence number.
func (s *Sim) StepNow() int {
	if s.Free {
		return 0
	}
	s.mu.Lock()
	defer s.mu.Unlock()
	return s.Step
}

func always(time.Time) (bool, Reason, time.Time) { return true, Ready, time.Time{} }

// Yield is a scheduling point with no condition.
func (tk *Task) Yield(label string) Reason { return tk.S.Park(tk.Name, label, always) }

// SleepSim waits for simulated time d (a scheduling point, not a real timer).
func (tk *Task) Sleep(label string, d time.Duration) Reason {
	at := time.Now().Add(d)
	return tk.S.Park(tk.Name, label, func(now time.Time) (bool, Reason, time.Time) {
		if !now.Before(at) {
			return true, Ready, time.Time{}
		}
		return false, Ready, at
	})
}

// WaitUntil parks until cond() holds (evaluated at quiescence) or the deadline passes (zero = none).
func (tk *Task) WaitUntil(label string, cond func() bool, deadline time.Time) Reason {
	return tk.S.Park(tk.Name, label, func(now time.Time) (bool, Reason, time.Time) {
		if cond() {
			return true, Ready, time.Time{}
		}
		if !deadline.IsZero() && !now.Before(deadline) {
			return true, Timeout, time.Time{}
		}
		return false, Ready, deadline
	})
}

// BeforeLock is installed as the repo's SimBeforeLock hook: park until the
// lock could be taken, which makes lock hand-off order a tape decision and
// keeps sync.Mutex (not durably blocking under synctest) from stalling the bubble.
func (s *Sim) BeforeLock(l *sync.RWMutex, write bool, name string) {
	poll := func(time.Time) (bool, Reason, time.Time) {
		if write {
			if l.TryLock() {
				l.Unlock()
				return true, Ready, time.Time{}
			}
		} else if l.TryRLock() {
			l.RUnlock()
			return true, Ready, time.Time{}
		}
		return false, Ready, time.Time{}
	}
	if s.Free {
		// Race mode. A goroutine blocked in sync.Mutex.Lock is not durably blocked, so the fake clock would
		// stop for as long as the holder sleeps on a timer (for ever, in wall time). Contenders therefore queue at a
		// harness-side gate (released by AfterLock once the real lock is held) and wait durably, by polling on the fake
		// clock, until the real lock is free. The gate orders nothing that the real lock does not order more strongly.
		for i := 0; i < 200000; i++ {
			s.gateMu.Lock()
			if !s.gates[l] {
				s.gates[l] = true
				s.gateMu.Unlock()
				break
			}
			s.gateMu.Unlock()
			time.Sleep(20 * time.Microsecond)
		}
		for i := 0; i < 1000000; i++ {
			if ok, _, _ := poll(time.Time{}); ok {
				return
			}
			time.Sleep(20 * time.Microsecond)
		}
		return
	}
	id := s.taskOfGoroutine()
	named := id != ""
	if !named {
		id = "zz-lock:" + name // a goroutine of the code under test (e.g. a server connection goroutine)
	}
	r := s.Park(id, "lock:"+name, poll)
	if s.LockObserver != nil {
		s.LockObserver(named)
	}
	if r == Drained {
		// simulation over: goroutines run freely; wait durably (fake-clock sleep) so
		// that a holder sleeping on a timer can finish.
		for i := 0; i < 100000; i++ {
			if ok, _, _ := poll(time.Time{}); ok {
				return
			}
			time.Sleep(time.Millisecond)
		}
	}
}

// YieldAtTryLock makes a non-blocking acquisition attempt a scheduling point (baton mode; nothing to do in race mode).
func (s *Sim) YieldAtTryLock(l *sync.RWMutex) {
	if s.Free {
		return
	}
	id := s.taskOfGoroutine()
	if id == "" {
		id = "zz-trylock"
	}
	s.Park(id, "trylock", always)
}

// AfterLock is installed as the repo's SimAfterLock hook (race mode only: opens the gate for the next contender).
func (s *Sim) AfterLock(l *sync.RWMutex) {
	if !s.Free {
		return
	}
	s.gateMu.Lock()
	s.gates[l] = false
	s.gateMu.Unlock()
}

// ---- the scheduler loop ----

// Run schedules until every foreground task has finished, the step budget is
// exhausted, an invariant fails or the system hangs.
func (s *Sim) Run() {
	if s.Free {
		s.runFree()
		return
	}
	var elig []*waiter
	var reasons []Reason
	for {
		synctest.Wait()
		s.mu.Lock()
		s.flushUnorderedLocked()
		if s.Invariant != nil && s.InvErr == nil {
			if err := s.Invariant(); err != nil {
				s.InvErr = err
				s.logLocked("invariant: %v", err)
				s.mu.Unlock()
				return
			}
		}
		if s.live == 0 {
			s.mu.Unlock()
			return
		}
		if s.Step >= s.MaxSteps {
			s.OverStep = true
			s.mu.Unlock()
			return
		}
		sort.Slice(s.waiters, func(i, j int) bool { return s.waiters[i].id < s.waiters[j].id })
		now := time.Now()
		elig = elig[:0]
		reasons = reasons[:0]
		var earliest time.Time
		for _, w := range s.waiters {
			ok, r, next := w.poll(now)
			if ok {
				elig = append(elig, w)
				reasons = append(reasons, r)
			} else if !next.IsZero() {
				if !next.After(now) {
					panic("verifsim: poll of " + w.id + "/" + w.label + " returned a wake-up time in the past")
				}
				if earliest.IsZero() || next.Before(earliest) {
					earliest = next
				}
			}
		}
		if len(elig) > 0 {
			idx := 0
			if len(elig) > 1 {
				idx = s.Tape.Choose(len(elig))
			}
			w := elig[idx]
			for i, x := range s.waiters {
				if x == w {
					s.waiters = append(s.waiters[:i], s.waiters[i+1:]...)
					break
				}
			}
			s.Step++
			s.logLocked("run %s %s r=%d of=%d", w.id, w.label, reasons[idx], len(elig))
			s.mu.Unlock()
			w.ch <- reasons[idx]
			continue
		}
		s.mu.Unlock()
		// nothing eligible: advance the clock
		select {
		case <-s.kick:
		default:
		}
		d := s.Horizon
		if !earliest.IsZero() {
			d = earliest.Sub(now)
		}
		timer := time.NewTimer(d)
		select {
		case <-timer.C:
			if earliest.IsZero() {
				s.mu.Lock()
				s.Hang = true
				s.logLocked("hang")
				s.mu.Unlock()
				return
			}
		case <-s.kick:
			timer.Stop()
		}
	}
}

func (s *Sim) runFree() {
	limit := time.Now().Add(2 * time.Minute) // simulated
	for {
		s.mu.Lock()
		live := s.live
		s.mu.Unlock()
		if live == 0 {
			return
		}
		if time.Now().After(limit) {
			s.mu.Lock()
			s.Hang = true
			s.mu.Unlock()
			return
		}
		time.Sleep(500 * time.Microsecond)
	}
}

// Drain ends the run: every parked goroutine is released with Drained (seams
// then return closed/aborted errors) until nothing parks any more.
func (s *Sim) Drain() {
	s.mu.Lock()
	s.draining = true
	s.mu.Unlock()
	s.drainFlag.Store(true)
	if s.Free {
		for i := 0; i < 60; i++ {
			time.Sleep(50 * time.Millisecond) // pollers notice the flag; real-code timers fire
		}
		return
	}
	idle := 0
	for i := 0; i < 5000 && idle < 40; i++ {
		synctest.Wait()
		s.mu.Lock()
		ws := s.waiters
		s.waiters = nil
		s.mu.Unlock()
		for _, w := range ws {
			w.ch <- Drained
		}
		if len(ws) == 0 {
			idle++
			time.Sleep(50 * time.Millisecond) // let real-code timers fire
		} else {
			idle = 0
		}
	}
}

// Waiting returns the ids of currently parked waiters (for diagnostics).
func (s *Sim) Waiting() []string {
	s.mu.Lock()
	defer s.mu.Unlock()
	var out []string
	for _, w := range s.waiters {
		out = append(out, w.id+"/"+w.label)
	}
	sort.Strings(out)
	return out
}
