package sim

// C12 — over RTU, a bad-CRC reply is never surfaced as data or as a device exception.

import (
	"bytes"
	"errors"
	"fmt"
	"time"

	"github.com/aldas/go-modbus-client/packet"
)

func init() {
	Register(&Property{ID: "C12", Run: runC12, Strata: strataC12, Sweep: sweepC12})
}

// sweepC12: RTU network client and serial client x function x {normal, exception} reply of a small request x every
// single-bit flip in the first 13 bytes x {whole, cut after byte 5, one byte per read}. Complete over single-bit
// flips for replies of up to 13 bytes.
func sweepC12(tier string) []Stratum {
	var out []Stratum
	for kind := 0; kind < 2; kind++ {
		for fc := range AllFCs {
			for _, exc := range []int32{0, 3} {
				for pos := int32(0); pos < 13; pos++ {
					for bit := int32(0); bit < 8; bit++ {
						for plan := int32(0); plan < 3; plan++ {
							nm := map[string]int32{"small": 3, "exc": exc, "pos": pos, "bit": bit, "gap": 0, "cut5": 0, "cutmode": 0}
							switch plan {
							case 1:
								nm["cut5"] = 2
							case 2:
								nm["cutmode"] = 3
							}
							out = append(out, Stratum{Prefix: []int32{int32(kind), int32(fc), 0}, Named: nm})
						}
					}
				}
			}
		}
	}
	if tier == "thorough" {
		// every single-byte substitution (all 255 other values) at the first 13 positions, reply delivered whole
		for kind := 0; kind < 2; kind++ {
			for fc := range AllFCs {
				for pos := int32(0); pos < 13; pos++ {
					for v := int32(0); v < 255; v++ {
						out = append(out, Stratum{Prefix: []int32{int32(kind), int32(fc), 1}, Named: map[string]int32{"small": 3, "exc": 0, "pos": pos, "subst": v, "gap": 0, "cut5": int32(v%3) * 1, "cutmode": 0}})
					}
				}
			}
		}
	}
	return out
}

var corruptionNames = []string{"bitflip", "substitute", "burst", "truncate", "extend", "duplicate_segment", "fc_highbit", "leading_bytes", "crc_swapped", "crc_bytes_only"}

// strata: (client kind 0/1, fc index, exception?, corruption kind): first draws of genC12.
func strataC12(tier string) [][]int32 {
	var out [][]int32
	for kind := 0; kind < 2; kind++ {
		for fc := range AllFCs {
			for ck := range corruptionNames {
				out = append(out, []int32{int32(kind), int32(fc), int32(ck)})
			}
		}
	}
	return out
}

type c12Info struct {
	Corruption string
	Pos        int
	leadLen    int // leading_bytes: how many foreign bytes precede the frame
}

func genC12(rc *RunCtx) (*C1, *c12Info, bool) {
	t := rc.Scen
	sc := &C1{}
	sc.Kind = []ClientKind{KRTU, KSerial}[t.Choose(2)]
	fc := AllFCs[t.Choose(len(AllFCs))]
	ck := t.Choose(len(corruptionNames))
	sc.Req = GenLegalReq(t, fc)
	// small replies most of the time so that corruption positions are dense
	small := t.ChooseAs("small", 4) >= 1
	if t.Has("small") {
		SmallReq(&sc.Req)
	} else if (fc <= 4 || fc == 23) && small {
		sc.Req.Qty = uint16(1 + t.Choose(6))
		if int(sc.Req.Addr)+int(sc.Req.Qty) > 65536 {
			sc.Req.Addr = 0
		}
	}
	sc.Unit = byte(1 + t.Choose(247))
	lr, err := BuildLibRequest(sc.Req, sc.Unit, 0, RTU)
	if err != nil {
		return sc, nil, false
	}
	sc.LibReq = lr
	var pdu []byte
	if t.ChooseAs("exc", 4) >= 3 {
		sc.IsExc = true
		sc.ExcCode = excCodes[t.Choose(len(excCodes))]
		pdu = []byte{fc | 0x80, sc.ExcCode}
	} else {
		dev := NewDevice(uint64(t.Choose(1 << 30)))
		if fc == 17 {
			dev.ServerID = t.Bytes(1 + t.Choose(6))
			if !t.Has("pos") && t.Chance(1, 4) {
				// the only reply shape that can reach the 256-byte maximum of an RTU frame
				n := 250 - t.Choose(4)
				dev.ServerID = make([]byte, n)
				for i := range dev.ServerID {
					dev.ServerID[i] = byte(i*7 + 1)
				}
				dev.Extra = nil
				if n < 250 {
					dev.Extra = t.Bytes(250 - n)
				}
			}
		}
		pdu = dev.Exec(sc.Req.PDU())
	}
	good := FrameRTU(sc.Unit, pdu)
	sc.Full = good
	bad := append([]byte(nil), good...)
	n := len(bad)
	info := &c12Info{Corruption: corruptionNames[ck]}
	switch ck {
	case 0: // single bit flip anywhere (including the CRC bytes)
		i := t.ChooseAs("pos", n)
		info.Pos = i
		bad[i] ^= 1 << uint(t.ChooseAs("bit", 8))
	case 1: // substitute one byte
		i := t.ChooseAs("pos", n)
		info.Pos = i
		bad[i] ^= byte(1 + t.ChooseAs("subst", 255))
	case 2: // burst of 2-4 bytes
		l := 2 + t.Choose(3)
		i := t.Choose(max(1, n-l+1))
		info.Pos = i
		for j := i; j < i+l && j < n; j++ {
			bad[j] ^= byte(1 + t.Choose(255))
		}
	case 3: // truncation
		l := 1 + t.Choose(n-1)
		if t.Choose(3) == 0 {
			l = n - 1 - t.Choose(min(2, n-1)) // the last byte or two never arrive
		}
		// (a frame whose last CRC byte is 0x00 stays CRC-consistent when that byte is cut off - the residue of a valid
		// frame is zero one byte early - so that truncation is outside the premise and is left to C08's stall-after-prefix)
		info.Pos = l
		bad = bad[:l]
	case 4: // extension by 1-6 bytes
		info.Pos = n
		ext := t.Bytes(1 + t.Choose(6))
		if t.Choose(3) == 0 {
			// line-idle / bus-release bytes
			for i := range ext {
				ext[i] = []byte{0xFF, 0x00}[(int(ext[i])>>3)&1]
			}
			ext[len(ext)-1] = 0xFF
		}
		bad = append(bad, ext...)
	case 5: // a segment arrives twice (echo)
		i := t.Choose(n)
		l := 1 + t.Choose(min(4, n-i))
		info.Pos = i
		dup := append([]byte(nil), bad[:i+l]...)
		dup = append(dup, bad[i:]...)
		bad = dup
	case 6: // the function code's high bit flips: a data frame that now looks like an exception
		info.Pos = 1
		bad[1] ^= 0x80
	case 7: // foreign bytes in front of the frame (line noise, or the late tail of an earlier reply)
		info.Pos = 0
		lead := t.Bytes(1 + t.Choose(3))
		if t.Choose(3) == 0 {
			lead = append([]byte(nil), good[max(0, n-len(lead)):]...) // the tail of a frame like this one
		} else if t.Choose(2) == 0 {
			// what an idle or released line produces: break bytes and mark bytes
			for i := range lead {
				lead[i] = []byte{0x00, 0xFF}[(int(lead[i])>>4)&1]
			}
		}
		info.leadLen = len(lead)
		bad = append(lead, bad...)
	case 8: // the two CRC bytes arrive in the wrong order (a device or gateway that appends the CRC high byte first)
		info.Pos = n - 2
		bad[n-2], bad[n-1] = bad[n-1], bad[n-2]
	case 9: // the damage is confined to the CRC trailer: one of its bytes, or both, take other values
		info.Pos = n - 2
		switch t.Choose(3) {
		case 0:
			bad[n-2] ^= byte(1 + t.Choose(255))
		case 1:
			bad[n-1] ^= byte(1 + t.Choose(255))
		default:
			bad[n-2] ^= byte(1 + t.Choose(255))
			bad[n-1] ^= byte(1 + t.Choose(255))
		}
	}
	sc.Reply = bad
	sc.Chunks = genChunks(t, len(bad))
	// 5-byte prefixes are where the early exception shortcut looks: over-weight a cut there
	if len(bad) > 5 && t.ChooseAs("cut5", 3) >= 2 {
		sc.Chunks = []Chunk{{N: 5, Gap: gapOf(t)}, {N: len(bad) - 5, Gap: gapOf(t)}}
	}
	if !t.Has("pos") && len(sc.Chunks) >= 2 && t.Chance(1, 8) {
		// a long pause inside the reply (a device that stalls mid-frame, a radio link): tens to hundreds of milliseconds
		sc.Chunks[1+t.Choose(len(sc.Chunks)-1)].Gap = time.Duration(55+t.Choose(200)) * time.Millisecond
	}
	if ck == 7 && !t.Has("pos") && len(bad) > info.leadLen && info.leadLen > 0 && t.Chance(1, 3) {
		// the foreign bytes arrive on their own, the frame after a pause
		sc.Chunks = []Chunk{{N: info.leadLen, Gap: gapOf(t)}, {N: len(bad) - info.leadLen, Gap: time.Duration(t.Choose(250)) * time.Millisecond}}
	}
	sc.ReadTimeout = []time.Duration{10 * time.Millisecond, 5 * time.Millisecond, 30 * time.Millisecond, 100 * time.Millisecond}[t.Choose(4)]
	if need := 2*totalGap(sc.Chunks) + 5*time.Millisecond; sc.ReadTimeout < need {
		sc.ReadTimeout = need
	}
	sc.WriteTimeout = time.Second
	if sc.Kind == KSerial {
		sc.PortTimeout = []time.Duration{2 * time.Millisecond, time.Millisecond, 10 * time.Millisecond}[t.Choose(3)]
		sc.TOStyle = TimeoutStyle(t.Choose(3))
		sc.Flusher = t.Choose(2) == 1
	}
	sc.Fault = FStall // nothing follows the corrupted bytes
	if sc.Kind == KRTU && !t.Has("pos") && t.Chance(1, 3) {
		sc.Fault = FEOF // the peer hangs up right after the corrupted reply
		sc.FaultGap = gapOf(t)
	}
	sc.Hooks = !t.Has("pos") && t.Chance(1, 4) // logging hooks installed: must make no difference
	if sc.Kind == KRTU && !t.Has("pos") && t.Chance(1, 5) {
		sc.ConfOneFunc = 1 + t.Choose(3) // the RTU constructor is handed a config that names parse functions (its own, or the CRC-less ones)
	}
	if sc.Kind == KSerial && !t.Has("pos") && len(sc.Chunks) > 0 && t.Chance(1, 6) {
		// the port fails for good while handing over the last bytes it got (n > 0 together with an error of its own)
		sc.Fault = FIOErr
		sc.ErrWithData = true
	}
	return sc, info, true
}

func runC12(rc *RunCtx) {
	t := rc.Scen
	sc, info, ok := genC12(rc)
	if !ok {
		rc.Probe("ctor_refused")
		return
	}
	if RTUConsistent(sc.Reply) {
		// the corruption left (or by chance produced) a CRC-consistent frame: outside the property's premise
		rc.Probe("corruption_crc_consistent_skipped")
		return
	}
	// Sequences on one client: the same corrupted reply twice, or a good exchange first (state kept between calls
	// must not let a bad frame through the second time).
	calls := []*C1{sc}
	infos := []*c12Info{info}
	if !t.Has("pos") {
		switch t.Pick(6, 2, 2) {
		case 1: // the same request answered by the same corrupted bytes again (and once more)
			for i := 0; i < 1+t.Choose(2); i++ {
				c := *sc
				c.Then = nil
				calls = append(calls, &c)
				infos = append(infos, info)
			}
		case 2: // a valid exchange first, then the corrupted reply to the same request
			good := *sc
			good.Reply = sc.Full
			good.Chunks = []Chunk{{N: len(sc.Full)}}
			good.Fault = FNone
			calls = []*C1{&good, sc}
			infos = []*c12Info{{Corruption: "none"}, info}
			if t.Chance(1, 3) {
				// the line is quiet for a while between the two exchanges
				sc.IdleBefore = time.Duration(200+t.Choose(2800)) * time.Millisecond
			}
		}
		if len(calls) == 1 && sc.Fault == FStall && t.Chance(1, 60) {
			// a long history on one client: healthy exchanges of all sizes, and after each of them the same corrupted
			// reply again - wherever the client keeps received bytes, no position in it may let the bad frame through
			n := historyLen(t)
			hist := genHistory(rc, sc, n, false)
			calls, infos = nil, nil
			for _, h := range hist {
				bad := *sc
				bad.Then = nil
				calls = append(calls, h, &bad)
				infos = append(infos, &c12Info{Corruption: "none"}, info)
			}
			calls = append(calls, sc)
			infos = append(infos, info)
			rc.longRun = true
			defer func() { rc.longRun = false }()
		}
	}
	for i := 0; i+1 < len(calls); i++ {
		calls[i].Then = calls[i+1]
	}
	first := RunC1(rc, calls[0])
	outs := append([]*C1Outcome{first}, first.Next...)
	rc.Desc = sc.describe()
	rc.Desc["corruption"] = info.Corruption
	rc.Desc["corruption_pos"] = info.Pos
	rc.Desc["valid_reply"] = fmt.Sprintf("%x", trunc(sc.Full, 48))
	rc.Desc["calls_on_this_client"] = len(calls)
	rc.Nontrivial = true
	rc.Fault(info.Corruption, len(first.Consumed) > 0)
	rc.Probe(fmt.Sprintf("%s|%s|exc=%v|calls=%d", sc.Kind, info.Corruption, sc.IsExc, len(calls)))
	if first.Panic != nil {
		rc.Violate("panic", fmt.Sprintf("client=%s", sc.Kind), "panic in %s: %s", first.Panic.Task, first.Panic.Value)
		return
	}
	for i, out := range outs {
		if i < len(calls) {
			checkC12Call(rc, calls[i], infos[i], out, i)
		}
	}
	// a response handed out by an earlier, valid exchange must not turn into the corrupted bytes of a later one
	if len(calls) == 2 && infos[0].Corruption == "none" && first.Err == nil && !isNilResponse(first.Resp) && !calls[0].IsExc {
		if got := first.Resp.Bytes(); !bytes.Equal(got, calls[0].Reply) {
			rc.Violate("badcrc_as_response", fmt.Sprintf("client=%s|via=earlier_response", sc.Kind),
				"the response of the earlier valid exchange re-encodes to %x after the corrupted reply of the next call was received; it was %x", trunc(got, 40), trunc(calls[0].Reply, 40))
		}
	}
	if len(outs) < len(calls) {
		rc.Violate("hang", fmt.Sprintf("client=%s", sc.Kind), "call #%d did not return", len(outs))
	}
}

func checkC12Call(rc *RunCtx, sc *C1, info *c12Info, out *C1Outcome, idx int) {
	base := fmt.Sprintf("client=%s", sc.Kind)
	if idx > 0 {
		base += "|followup"
	}
	if !out.Returned {
		rc.Violate("hang", base, "Do did not return")
		return
	}
	r := out.Consumed
	consistent := RTUConsistent(r)
	hi := len(r) > 1 && r[1]&0x80 != 0
	var exc *packet.ErrorResponseRTU
	switch {
	case out.Err == nil:
		if !consistent {
			rc.Violate("badcrc_as_response", fmt.Sprintf("%s|consumed=%s", base, lenClass(len(r))),
				"call #%d: client returned %T although the %d bytes it consumed (%x) fail the CRC; corruption %s at %d of valid reply %x",
				idx, out.Resp, len(r), trunc(r, 40), info.Corruption, info.Pos, trunc(sc.Full, 40))
		} else {
			rc.Probe("consumed_prefix_was_consistent")
		}
	case errors.As(out.Err, &exc):
		if !consistent {
			rc.Violate("badcrc_as_exception", fmt.Sprintf("%s|consumed=%s|fc_highbit=%v", base, lenClass(len(r)), hi),
				"call #%d: client surfaced a device exception (unit %d fc %d code %d) from %d consumed bytes (%x) that fail the CRC; corruption %s at %d of valid reply %x",
				idx, exc.UnitID, exc.Function, exc.Code, len(r), trunc(r, 40), info.Corruption, info.Pos, trunc(sc.Full, 40))
		} else {
			rc.Probe("consumed_prefix_was_consistent")
		}
	default:
		rc.Probe("rejected_with_plain_error")
	}
}

func lenClass(n int) string {
	if n == 5 {
		return "5"
	}
	if n < 5 {
		return "lt5"
	}
	return "gt5"
}
