package sim

// C12 — over RTU, a bad-CRC reply is never surfaced as data or as a device exception.

import (
	"errors"
	"fmt"
	"time"

	"github.com/aldas/go-modbus-client/packet"
)

func init() {
	Register(&Property{ID: "C12", Run: runC12, Strata: strataC12})
}

var corruptionNames = []string{"bitflip", "substitute", "burst", "truncate", "extend", "duplicate_segment", "fc_highbit"}

// strata: (client kind 0/1, fc index, exception?, corruption kind): first draws of genC12.
func strataC12(tier string) [][]int32 {
	var out [][]int32
	for kind := 0; kind < 2; kind++ {
		for fc := range AllFCs {
			for ck := range corruptionNames {
				out = append(out, []int32{int32(kind), int32(fc), int32(ck)})
			}
		}
	}
	return out
}

type c12Info struct {
	Corruption string
	Pos        int
}

func genC12(rc *RunCtx) (*C1, *c12Info, bool) {
	t := rc.Scen
	sc := &C1{}
	sc.Kind = []ClientKind{KRTU, KSerial}[t.Choose(2)]
	fc := AllFCs[t.Choose(len(AllFCs))]
	ck := t.Choose(len(corruptionNames))
	sc.Req = GenLegalReq(t, fc)
	// small replies most of the time so that corruption positions are dense
	if (fc <= 4 || fc == 23) && t.Chance(3, 4) {
		sc.Req.Qty = uint16(1 + t.Choose(6))
		if int(sc.Req.Addr)+int(sc.Req.Qty) > 65536 {
			sc.Req.Addr = 0
		}
	}
	sc.Unit = byte(1 + t.Choose(247))
	lr, err := BuildLibRequest(sc.Req, sc.Unit, 0, RTU)
	if err != nil {
		return sc, nil, false
	}
	sc.LibReq = lr
	var pdu []byte
	if t.Chance(1, 4) {
		sc.IsExc = true
		sc.ExcCode = excCodes[t.Choose(len(excCodes))]
		pdu = []byte{fc | 0x80, sc.ExcCode}
	} else {
		dev := NewDevice(uint64(t.Choose(1 << 30)))
		if fc == 17 {
			dev.ServerID = t.Bytes(1 + t.Choose(6))
		}
		pdu = dev.Exec(sc.Req.PDU())
	}
	good := FrameRTU(sc.Unit, pdu)
	sc.Full = good
	bad := append([]byte(nil), good...)
	n := len(bad)
	info := &c12Info{Corruption: corruptionNames[ck]}
	switch ck {
	case 0: // single bit flip anywhere (including the CRC bytes)
		i := t.Choose(n)
		info.Pos = i
		bad[i] ^= 1 << uint(t.Choose(8))
	case 1: // substitute one byte
		i := t.Choose(n)
		info.Pos = i
		bad[i] ^= byte(1 + t.Choose(255))
	case 2: // burst of 2-4 bytes
		l := 2 + t.Choose(3)
		i := t.Choose(max(1, n-l+1))
		info.Pos = i
		for j := i; j < i+l && j < n; j++ {
			bad[j] ^= byte(1 + t.Choose(255))
		}
	case 3: // truncation
		l := 1 + t.Choose(n-1)
		info.Pos = l
		bad = bad[:l]
	case 4: // extension by 1-6 bytes
		info.Pos = n
		bad = append(bad, t.Bytes(1+t.Choose(6))...)
	case 5: // a segment arrives twice (echo)
		i := t.Choose(n)
		l := 1 + t.Choose(min(4, n-i))
		info.Pos = i
		dup := append([]byte(nil), bad[:i+l]...)
		dup = append(dup, bad[i:]...)
		bad = dup
	case 6: // the function code's high bit flips: a data frame that now looks like an exception
		info.Pos = 1
		bad[1] ^= 0x80
	}
	if len(bad) > 256 {
		bad = bad[:256]
	}
	sc.Reply = bad
	sc.Chunks = genChunks(t, len(bad))
	// 5-byte prefixes are where the early exception shortcut looks: over-weight a cut there
	if len(bad) > 5 && t.Chance(1, 3) {
		sc.Chunks = []Chunk{{N: 5, Gap: gapOf(t)}, {N: len(bad) - 5, Gap: gapOf(t)}}
	}
	sc.ReadTimeout = []time.Duration{10 * time.Millisecond, 5 * time.Millisecond, 30 * time.Millisecond, 100 * time.Millisecond}[t.Choose(4)]
	if need := 2*totalGap(sc.Chunks) + 5*time.Millisecond; sc.ReadTimeout < need {
		sc.ReadTimeout = need
	}
	sc.WriteTimeout = time.Second
	if sc.Kind == KSerial {
		sc.PortTimeout = []time.Duration{2 * time.Millisecond, time.Millisecond, 10 * time.Millisecond}[t.Choose(3)]
		sc.TOStyle = TimeoutStyle(t.Choose(3))
		sc.Flusher = t.Choose(2) == 1
	}
	sc.Fault = FStall // nothing follows the corrupted bytes
	return sc, info, true
}

func runC12(rc *RunCtx) {
	sc, info, ok := genC12(rc)
	if !ok {
		rc.Probe("ctor_refused")
		return
	}
	if RTUConsistent(sc.Reply) {
		// the corruption left (or by chance produced) a CRC-consistent frame: outside the property's premise
		rc.Probe("corruption_crc_consistent_skipped")
		return
	}
	out := RunC1(rc, sc)
	rc.Desc = sc.describe()
	rc.Desc["corruption"] = info.Corruption
	rc.Desc["corruption_pos"] = info.Pos
	rc.Desc["valid_reply"] = fmt.Sprintf("%x", trunc(sc.Full, 48))
	rc.Nontrivial = true
	rc.Fault(info.Corruption, len(out.Consumed) > 0)
	rc.Probe(fmt.Sprintf("%s|%s|exc=%v", sc.Kind, info.Corruption, sc.IsExc))

	base := fmt.Sprintf("client=%s", sc.Kind)
	if out.Panic != nil {
		rc.Violate("panic", base, "panic in %s: %s", out.Panic.Task, out.Panic.Value)
		return
	}
	if !out.Returned {
		rc.Violate("hang", base, "Do did not return")
		return
	}
	r := out.Consumed
	consistent := RTUConsistent(r)
	hi := len(r) > 1 && r[1]&0x80 != 0
	var exc *packet.ErrorResponseRTU
	switch {
	case out.Err == nil:
		if !consistent {
			rc.Violate("badcrc_as_response", fmt.Sprintf("%s|consumed=%s", base, lenClass(len(r))),
				"client returned %T although the %d bytes it consumed (%x) fail the CRC; corruption %s at %d of valid reply %x",
				out.Resp, len(r), trunc(r, 40), info.Corruption, info.Pos, trunc(sc.Full, 40))
		} else {
			rc.Probe("consumed_prefix_was_consistent")
		}
	case errors.As(out.Err, &exc):
		if !consistent {
			rc.Violate("badcrc_as_exception", fmt.Sprintf("%s|consumed=%s|fc_highbit=%v", base, lenClass(len(r)), hi),
				"client surfaced a device exception (unit %d fc %d code %d) from %d consumed bytes (%x) that fail the CRC; corruption %s at %d of valid reply %x",
				exc.UnitID, exc.Function, exc.Code, len(r), trunc(r, 40), info.Corruption, info.Pos, trunc(sc.Full, 40))
		} else {
			rc.Probe("consumed_prefix_was_consistent")
		}
	default:
		rc.Probe("rejected_with_plain_error")
	}
}

func lenClass(n int) string {
	if n == 5 {
		return "5"
	}
	if n < 5 {
		return "lt5"
	}
	return "gt5"
}
