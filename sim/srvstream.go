package sim

// Scenario family `srvstream`: the real server.Server (accept loop, connection
// loop, ModbusTCPAssembler) on a simulated listener; raw client tasks write
// byte streams; the handler is the reference device. Serves C15 and C16.

import (
	"bytes"
	"context"
	"errors"
	"fmt"
	"io"
	"os"
	"reflect"
	"sync"
	"time"

	"github.com/aldas/go-modbus-client/packet"
	"github.com/aldas/go-modbus-client/server"
)

type HandlerMode int

const (
	HNormal       HandlerMode = iota // the reference device answers
	HTypedErrCtor                    // return packet.NewErrorParseTCP(code, msg)  (header fields left as the constructor sets them)
	HTypedErrFull                    // return *packet.ErrorParseTCP with tid/unit/function filled in by the handler
	HPlainErr                        // return errors.New(...)
	HPanic                           // panic
	HSlow                            // simulated work, then the device answers
	HRewriteErr                      // re-address the request object in place (as a gateway that forwards it does), then fail with a plain error
	HForeignExc                      // return an error wrapping the *packet.ErrorResponseTCP of a downstream exchange (other transaction id and unit id), as a gateway handler does
)

var handlerModeNames = [...]string{"normal", "typed_error_ctor", "typed_error_filled", "plain_error", "panic", "slow", "rewrites_request_then_fails", "wrapped_downstream_exception"}

func (h HandlerMode) String() string { return handlerModeNames[h] }

type SrvReq struct {
	Frame []byte
	FC    byte
	TID   uint16
	Unit  byte
	Class string // valid | unsupported_fc | out_of_range | short_body | bytecount_mismatch
	Mode  HandlerMode
	Code  byte          // exception code used by typed-error modes
	Work  time.Duration // HSlow
}

type SrvConnPlan struct {
	Reqs         []SrvReq
	Pipelined    bool
	Writes       []int           // sizes of the client's successive writes over the concatenated request stream
	Gaps         []time.Duration // pause before each write
	Skip         bool            // twin runs: this connection is left out
	AbortMid     bool
	StallAtReply int           // >0: the client stops reading in the middle of the n-th reply (the server write runs into its deadline)
	StartDelay   time.Duration // the client connects this long after the start of the run
}

type SrvScenario struct {
	Conns            []SrvConnPlan
	ReadTimeout      time.Duration // server knob
	CutServerReads   bool
	LatencyMax       time.Duration
	ReplyTimeout     time.Duration
	StatelessDevice  bool // writes are validated and echoed but not stored
	TimeoutWithData  bool // the server side reads sometimes return data together with the deadline error
	Race             bool // race mode: free-running goroutines, no monitors
	SharedHandlerErr bool // typed handler errors are one shared value (sentinel idiom)
	LongPauses       bool // some client pauses last many simulated seconds: allow the scheduler the steps the polling server needs
	ScratchReplies   bool // the handler hands out its replies as views of one scratch buffer (valid until its next call)
	OwnAssembler     bool // the application sets AssemblerCreatorFunc itself: func(h) { return &server.ModbusTCPAssembler{Handler: h} }
}

type SrvConnOut struct {
	Received   []byte
	Closed     bool     // the client saw EOF / reset
	ReplyAfter []int    // lock-step: number of reply bytes received when request k had been answered or given up
	Status     []string // lock-step per request: "reply" | "timeout" | "closed"
	Early      string   // first early-reply observation
	ServerRead int      // bytes the server consumed from this connection
	Dialed     bool
}

type SrvOutcome struct {
	Conns      []SrvConnOut
	Errors     []string
	Panics     []PanicRec
	Handled    []uint16 // tids in the order the handler saw them
	ServeErr   error
	SubjectSrv *Conn // server end of connection 0 (transport record)
	ServeDone  bool
	Hang       bool
	HeldBad    string // a request kept by the handler changed after the call
	OverStep   bool
}

type rawResp struct {
	fc byte
	b  []byte
}

func (r rawResp) FunctionCode() uint8 { return r.fc }
func (r rawResp) Bytes() []byte       { return r.b }

type srvHandler struct {
	sharedErr bool
	sentinel  *packet.ErrorParseTCP
	s         *Sim
	dev       map[byte]*Device // per unit id
	seed      uint64
	modes     map[uint16]*SrvReq
	stateless bool
	out       *SrvOutcome
	mu        sync.Mutex
	n         int
	held      []heldReq // requests the handler was given, kept beyond the call (a journalling handler does that)
	scratch   bool      // replies are handed out as views of one buffer the handler owns and overwrites at its next call
	buf       []byte
}

type heldReq struct {
	req packet.Request
	was []byte
}

func (h *srvHandler) device(unit byte) *Device {
	h.mu.Lock()
	defer h.mu.Unlock()
	d := h.dev[unit]
	if d == nil {
		d = NewDevice(Mix(h.seed, uint64(unit), 7))
		d.ReadOnly = h.stateless
		h.dev[unit] = d
	}
	return d
}

func (h *srvHandler) Handle(ctx context.Context, req packet.Request) (packet.Response, error) {
	b := req.Bytes()
	tid, unit, pdu, ok := UnframeTCP(b)
	h.mu.Lock()
	h.n++
	seq := h.n
	h.out.Handled = append(h.out.Handled, tid)
	m := h.modes[tid]
	if !h.s.Free {
		h.held = append(h.held, heldReq{req, append([]byte(nil), b...)})
	}
	h.mu.Unlock()
	h.s.Logf("handle tid=%d fc=%d ok=%v", tid, req.FunctionCode(), ok)
	mode, code, work := HNormal, byte(4), time.Duration(0)
	if m != nil {
		mode, code, work = m.Mode, m.Code, m.Work
	}
	id := fmt.Sprintf("handler#%d", seq)
	if h.s.Park(id, "handle-entry", always) == Drained {
		return nil, errors.New("simulation over")
	}
	switch mode {
	case HTypedErrCtor:
		if h.sharedErr {
			// the ordinary sentinel-error idiom: one error value, returned every time
			h.mu.Lock()
			if h.sentinel == nil {
				h.sentinel = packet.NewErrorParseTCP(packet.ErrServerBusy, "handler refuses (sentinel)") // one code for every request: replies stay a function of the request
			}
			e := h.sentinel
			h.mu.Unlock()
			return nil, e
		}
		return nil, packet.NewErrorParseTCP(code, "handler refuses")
	case HTypedErrFull:
		if code%2 == 1 {
			// a gateway-style handler: the typed error it returns is the parse error of another frame (an embedded or
			// upstream one) and carries that frame's transaction id, unit and function, wrapped once; the reply must still be
			// addressed to the request (wave 14)
			foreign := &packet.ErrorParseTCP{Message: "upstream frame refused", Packet: packet.ErrorResponseTCP{TransactionID: tid ^ 0x5555, UnitID: unit + 0x66, Function: (req.FunctionCode() % 6) + 1, Code: code}}
			return nil, fmt.Errorf("forwarding failed: %w", foreign)
		}
		return nil, &packet.ErrorParseTCP{Message: "handler refuses", Packet: packet.ErrorResponseTCP{TransactionID: tid, UnitID: unit, Function: req.FunctionCode(), Code: code}}
	case HPlainErr:
		return nil, errors.New("handler failed: database is down")
	case HRewriteErr:
		// the request object is the handler's to use: a forwarding handler re-addresses it for the downstream bus, the
		// downstream exchange fails, the handler reports that
		if v := reflect.ValueOf(req); v.Kind() == reflect.Ptr && v.Elem().Kind() == reflect.Struct {
			for _, name := range []string{"TransactionID", "UnitID"} {
				if f := v.Elem().FieldByName(name); f.IsValid() && f.CanSet() && f.CanUint() {
					f.SetUint((f.Uint() + 0x11) & 0xff)
				}
			}
			h.mu.Lock()
			for i := len(h.held) - 1; i >= 0; i-- {
				if h.held[i].req == req {
					h.held[i].was = append([]byte(nil), safeBytes(req)...) // (what the handler itself made of it)
					break
				}
			}
			h.mu.Unlock()
		}
		return nil, errors.New("handler failed: downstream bus does not answer")
	case HForeignExc:
		// what modbus.Client.Do returns for a downstream device's exception, passed on with %w: its ids are those of the
		// downstream exchange, not of this request
		return nil, fmt.Errorf("downstream device refused: %w", &packet.ErrorResponseTCP{TransactionID: tid ^ 0x5a5a, UnitID: unit ^ 0x21, Function: req.FunctionCode(), Code: 2})
	case HPanic:
		// what handlers panic with in practice: a string, an error, a runtime error, a value of a type that cannot be compared
		switch h.seed % 4 { // one kind per run: a handler that fails keeps failing the same way
		case 1:
			panic(errors.New("handler panics on purpose (error value)"))
		case 2:
			panic(uncomparablePanic{"handler", "panics", "on purpose"})
		case 3:
			var m map[string]int
			m["x"] = 1 // runtime error
		}
		panic("handler panics on purpose")
	case HSlow:
		at := time.Now().Add(work)
		h.s.Park(id, "handle-work", func(now time.Time) (bool, Reason, time.Time) {
			if !now.Before(at) {
				return true, Ready, time.Time{}
			}
			return false, Ready, at
		})
	}
	if !ok {
		return nil, errors.New("handler could not unframe the request it was given")
	}
	rp := h.device(unit).Exec(pdu)
	if h.scratch {
		// a handler that builds every reply in its own scratch buffer: the bytes are valid until its next call
		h.mu.Lock()
		defer h.mu.Unlock()
		for i := range h.buf {
			h.buf[i] = 0xEE
		}
		h.buf = append(h.buf[:0], FrameTCP(tid, unit, rp)...)
		return rawResp{fc: req.FunctionCode(), b: h.buf}, nil
	}
	return rawResp{fc: req.FunctionCode(), b: FrameTCP(tid, unit, rp)}, nil
}

// completeFrames counts whole ADUs within the first n bytes of stream (by MBAP length field).
func completeFrames(reqs []SrvReq, n int) int {
	k := 0
	for _, r := range reqs {
		if n < len(r.Frame) {
			break
		}
		n -= len(r.Frame)
		k++
	}
	return k
}

// RunSrv executes one srvstream run inside the current bubble. twinReplyLens (optional) gives, per connection and
// request, the reply length of the whole-arrival run: it bounds what the server may have written at any instant.
func RunSrv(rc *RunCtx, sc *SrvScenario, sched *Tape, seed uint64, twinReplyLens [][]int) *SrvOutcome {
	s := NewSim(sched)
	if sc.LongPauses {
		s.MaxSteps = 400000
	}
	s.Tracing = rc.Tracing
	s.Free = sc.Race
	out := &SrvOutcome{Conns: make([]SrvConnOut, len(sc.Conns))}
	defer s.Activate()()

	ln := NewListener(s, "L")
	h := &srvHandler{s: s, dev: map[byte]*Device{}, seed: seed, modes: map[uint16]*SrvReq{}, out: out, stateless: sc.StatelessDevice, sharedErr: sc.SharedHandlerErr}
	for ci := range sc.Conns {
		for ri := range sc.Conns[ci].Reqs {
			r := &sc.Conns[ci].Reqs[ri]
			h.modes[r.TID] = r
		}
	}
	h.scratch = sc.ScratchReplies && len(sc.Conns) == 1 // (one scratch buffer serves one connection's handler calls, which are sequential)
	var emu sync.Mutex
	srv := &server.Server{
		ReadTimeout: sc.ReadTimeout,
		OnErrorFunc: func(err error) {
			emu.Lock()
			out.Errors = append(out.Errors, err.Error())
			emu.Unlock()
		},
	}
	if sc.OwnAssembler {
		// what the default does, written out by the application (to wrap or instrument the assembler)
		srv.AssemblerCreatorFunc = func(handler server.ModbusHandler) server.PacketAssembler {
			return &server.ModbusTCPAssembler{Handler: handler}
		}
	}
	connIndex := map[*Conn]int{}
	written := map[int]int{}
	ln.ConnSetup = func(cl, sv *Conn) {
		sv.CutReads = sc.CutServerReads
		sv.TimeoutWithData = sc.TimeoutWithData
		if sc.LatencyMax > 0 {
			cl.Latency = func() time.Duration {
				return time.Duration(cl.choose(int(sc.LatencyMax/time.Microsecond)+1)) * time.Microsecond
			}
		}
		if twinReplyLens == nil {
			return // the write monitor is only needed for C15's "nothing before the request is complete" clause
		}
		sv.OnWrite = func(c *Conn, data []byte) {
			s.mu.Lock()
			ci, ok := connIndex[c]
			s.mu.Unlock()
			if !ok || twinReplyLens == nil {
				return
			}
			written[ci] += len(data)
			k := completeFrames(sc.Conns[ci].Reqs, c.Consumed())
			allowed := 0
			for i := 0; i < k && i < len(twinReplyLens[ci]); i++ {
				allowed += twinReplyLens[ci][i]
			}
			if written[ci] > allowed && out.Conns[ci].Early == "" {
				out.Conns[ci].Early = fmt.Sprintf("server had read %d request bytes (%d complete requests) but had written %d reply bytes (at most %d are due): last write %x",
					c.Consumed(), k, written[ci], allowed, trunc(data, 16))
			}
		}
	}
	ctx, cancel := context.WithCancel(context.Background())
	defer cancel()
	s.Go("serve", true, func(tk *Task) {
		out.ServeErr = srv.Serve(ctx, ln, h)
		out.ServeDone = true
	})
	replyTimeout := sc.ReplyTimeout
	if replyTimeout == 0 {
		replyTimeout = time.Second
	}
	for ci := range sc.Conns {
		ci := ci
		plan := &sc.Conns[ci]
		if plan.Skip {
			continue
		}
		co := &out.Conns[ci]
		s.Go(fmt.Sprintf("cli%d", ci), false, func(tk *Task) {
			if plan.StartDelay > 0 && tk.Sleep("start-delay", plan.StartDelay) == Drained {
				return
			}
			cl, err := ln.Dial()
			if err != nil {
				return
			}
			co.Dialed = true
			s.mu.Lock()
			connIndex[cl.peer] = ci
			s.mu.Unlock()
			if ci == 0 {
				out.SubjectSrv = cl.peer
			}
			if plan.StallAtReply > 0 {
				cl.peer.lock()
				cl.peer.PartialWriteAt = plan.StallAtReply
				cl.peer.unlock()
			}
			stream := []byte{}
			bounds := []int{}
			for _, r := range plan.Reqs {
				stream = append(stream, r.Frame...)
				bounds = append(bounds, len(stream))
			}
			tmp := make([]byte, 512)
			// readUntil reads until cond(received) or deadline; reports "ok", "timeout" or "closed"
			readUntil := func(cond func() bool, d time.Duration) string {
				deadline := time.Now().Add(d)
				for {
					if cond() {
						return "ok"
					}
					if co.Closed {
						return "closed"
					}
					cl.SetReadDeadline(deadline)
					n, err := cl.Read(tmp)
					co.Received = append(co.Received, tmp[:n]...)
					if err != nil {
						if errors.Is(err, os.ErrDeadlineExceeded) {
							if cond() {
								return "ok"
							}
							return "timeout"
						}
						if errors.Is(err, io.EOF) || n == 0 {
							co.Closed = true
							if cond() {
								return "ok"
							}
							return "closed"
						}
					}
				}
			}
			sent, nextReq := 0, 0
			repliesWanted := 0
			for wi, w := range plan.Writes {
				if wi < len(plan.Gaps) && plan.Gaps[wi] > 0 {
					if tk.Sleep("gap", plan.Gaps[wi]) == Drained {
						return
					}
				}
				if _, err := cl.Write(stream[sent : sent+w]); err != nil {
					co.Closed = true
					break
				}
				sent += w
				for nextReq < len(bounds) && bounds[nextReq] <= sent {
					nextReq++
					if !plan.Pipelined {
						// lock-step: wait for one more complete reply frame
						repliesWanted++
						want := repliesWanted
						st := readUntil(func() bool { f, _ := SplitTCPStream(co.Received); return len(f) >= want }, replyTimeout)
						if st == "ok" {
							st = "reply"
						}
						co.Status = append(co.Status, st)
						co.ReplyAfter = append(co.ReplyAfter, len(co.Received))
					}
				}
			}
			if plan.AbortMid {
				cl.Close()
				return
			}
			if plan.Pipelined {
				want := len(plan.Reqs)
				readUntil(func() bool { f, _ := SplitTCPStream(co.Received); return len(f) >= want }, replyTimeout)
			}
			// a further period of silence shows extra replies
			readUntil(func() bool { return false }, 200*time.Millisecond)
			co.ServerRead = cl.peer.Consumed()
			cl.Close()
		})
	}
	s.Run()
	out.Hang, out.OverStep = s.Hang, s.OverStep
	s.Drain()
	out.Panics = s.Panics
	// a request object handed to the handler is the handler's to keep: later traffic must not rewrite it
	for i, hr := range h.held {
		if now := safeBytes(hr.req); !bytes.Equal(now, hr.was) {
			out.HeldBad = fmt.Sprintf("request #%d handed to the handler encoded to %x then and to %x after the rest of the traffic", i, trunc(hr.was, 24), trunc(now, 24))
			break
		}
	}
	rc.finishFrom(s)
	return out
}

func safeBytes(r packet.Request) (b []byte) {
	defer func() { recover() }()
	return r.Bytes()
}

// uncomparablePanic is an error whose dynamic type cannot be compared with ==.
type uncomparablePanic []string

func (u uncomparablePanic) Error() string { return "handler panics on purpose (uncomparable value)" }
