package sim

// Scenario family `client1`: one real client (TCP framing over a network
// connection, RTU framing over a network connection, serial client), one call
// to Do, a scripted transport. Serves C07, C08, C12 and C19.

import (
	"bytes"
	"context"
	"errors"
	"fmt"
	"io"
	"io/fs"
	"net"
	"os"
	"syscall"
	"time"

	modbus "github.com/aldas/go-modbus-client"
	"github.com/aldas/go-modbus-client/packet"
)

type ClientKind int

const (
	KTCP ClientKind = iota
	KRTU
	KSerial
)

func (k ClientKind) String() string { return [...]string{"tcp", "rtunet", "serial"}[k] }
func (k ClientKind) Framing() Framing {
	if k == KTCP {
		return TCP
	}
	return RTU
}

type Chunk struct {
	N   int
	Gap time.Duration
	Err error // delivered together with the chunk's data (io.Reader allows n > 0 with a non-nil error)
}

type FaultKind int

const (
	FNone FaultKind = iota
	FStall
	FEOF
	FIOErr
	FOversize
	FWriteErr
	FShortWrite
	FCancelBefore
	FCancelAfterWrite
	FCancelAt
	FCtxDeadline
	FNotConnected
	FNilRequest
	FFlushFail
	FDialFail
	FWriteDeadlineErr
)

var faultNames = [...]string{"none", "stall", "eof", "ioerr", "oversize", "write_error", "short_write", "cancel_before", "cancel_after_write", "cancel_at", "ctx_deadline", "not_connected", "nil_request", "flush_fail", "dial_fail", "write_deadline_rejected"}

func (f FaultKind) String() string { return faultNames[f] }

type C1 struct {
	Kind   ClientKind
	Req    Req
	Unit   byte
	TID    uint16
	LibReq packet.Request

	IOErr           error         // identity of the injected hard I/O error (nil: the plain sentinel); always wraps ErrSimIO
	Endless         bool          // oversize: after the scripted bytes the sender never stops
	Reconnect       int           // (follow-up call, network clients) before this call: 1 = Connect again without Close, 2 = Close then Connect
	ConfOneFunc     int           // network clients built by the protocol constructors: 1 = only ParseResponseFunc given in the config (the protocol's own), 2 = only AsProtocolErrorFunc, 3 = (RTU) both given, the CRC-less variants
	ValueHooks      bool          // the hooks are a value type installed by value (zero value)
	Marathon        int           // after the (first) call the same request is made this many more times on the same client, each answered by the same reply script
	DeadlinePort    bool          // serial port without Flush but with SetReadDeadline
	NilHooksOption  bool          // serial client built with WithSerialHooks(nil) when no hooks are wanted
	PanicHook       string        // "write" | "read" | "parse": the installed hook of that kind panics once; the application recovers the panic and goes on using the client
	HookDelay       time.Duration // every hook call takes this long (simulated)
	CtxWithCause    bool          // the caller's context carries a cancellation cause (WithCancelCause / WithTimeoutCause)
	DialCtxBound    bool          // network clients: the connection lives only as long as the context the dial function was given
	ZeroNilReads    bool          // network transports: a non-blocking connection whose reads return (0, nil) when nothing has arrived
	WrappedTimeouts bool          // network transports report read timeouts as a *net.OpError wrapping the sentinel, as real sockets do
	Reply           []byte        // bytes the transport will deliver (before any terminal fault)
	Full            []byte        // the complete well-formed reply (Reply may be a prefix or a corruption of it)
	IsExc           bool
	ExcCode         byte
	Chunks          []Chunk

	EOFWithLast  bool
	ReadTimeout  time.Duration
	WriteTimeout time.Duration
	PortTimeout  time.Duration
	TOStyle      TimeoutStyle
	Flusher      bool

	Fault        FaultKind
	FaultGap     time.Duration // delay before the terminal fault (EOF / error) is observable
	CancelAt     time.Duration // FCancelAt / FCtxDeadline: simulated time after the call starts
	ErrWithData  bool          // terminal error delivered together with the last prefix chunk
	TypedNilDial bool          // FDialFail: the dial function returns a typed nil connection together with its error

	Hooks        bool
	LongSilence  bool          // C07: one gap of 50-93 % of the read timeout
	Then         *C1           // a follow-up call on the same client (same kind, own request and reply script)
	KeepStale    bool          // follow-up call: bytes the previous exchange left unread (or that arrive late) are still there
	IdleBefore   time.Duration // follow-up call: the client sits idle this long before the call
	LateRest     []byte        // first call, stall faults: the rest of the reply arrives after the call has given up
	ObserveParse bool          // network clients only: build with modbus.NewClient and wrapped parse functions to see parser invocations
}

type hookRec struct {
	Kind string
	Data []byte // copy taken at call time
	Live []byte // the slice that was handed out
	N    int
	Err  error
}

type recHooks struct {
	recs    []hookRec
	panicAt string // "write" | "read" | "parse": the hook of that kind panics the first time it is called (a logger with a bug)
	delay   func() // set: every hook call takes a little simulated time
}

func (h *recHooks) misbehave(kind string) {
	if h.delay != nil {
		h.delay()
	}
	if h.panicAt == kind {
		h.panicAt = ""
		panic("logging hook panics on purpose (index out of range in its formatter)")
	}
}

func (h *recHooks) BeforeWrite(b []byte) {
	h.recs = append(h.recs, hookRec{Kind: "write", Data: append([]byte(nil), b...), Live: b})
	h.misbehave("write")
}
func (h *recHooks) AfterEachRead(b []byte, n int, err error) {
	h.recs = append(h.recs, hookRec{Kind: "read", Data: append([]byte(nil), b...), Live: b, N: n, Err: err})
	h.misbehave("read")
}
func (h *recHooks) BeforeParse(b []byte) {
	h.recs = append(h.recs, hookRec{Kind: "parse", Data: append([]byte(nil), b...), Live: b})
	h.misbehave("parse")
}

type C1Outcome struct {
	Resp              packet.Response
	Err               error
	Returned          bool
	Elapsed           time.Duration
	Start             time.Duration // simulated time at which Do was called
	Rec               []IORec       // transport calls as the transport saw them
	Consumed          []byte        // bytes handed to the client by Read calls
	Written           []byte
	Hooks             []hookRec
	Panic             *PanicRec
	Hang              bool
	OverStep          bool
	Flushes           int
	HookPanicked      bool   // the installed hook panicked inside Do and the application recovered it
	MarathonBad       string // first repetition of a marathon that did not bring the reply (or did not return)
	MarathonDone      int
	StaleIO           string // first use of a connection that a later Connect had replaced
	PendingRead       bool   // Do returned while a transport read it had started was still in progress
	WDeadlineRejected int
	ConnErr           error

	Next     []*C1Outcome // outcomes of follow-up calls (C1.Then)
	recFrom  int
	hookFrom int

	ParseCalls     int
	ParseArg       []byte
	ParseAfterHook bool // BeforeParse had already been called when the parser ran
}

// plainPort hides Flush so that the serial client sees a port without Flusher.
type plainPort struct{ c *Conn }

func (p plainPort) Read(b []byte) (int, error)  { return p.c.Read(b) }
func (p plainPort) Write(b []byte) (int, error) { return p.c.Write(b) }
func (p plainPort) Close() error                { return p.c.Close() }

// deadlinePort is a port without Flush that offers a read deadline (as serial libraries built on file descriptors do).
type deadlinePort struct{ plainPort }

func (p deadlinePort) SetReadDeadline(t time.Time) error { return p.c.SetReadDeadline(t) }

type flushPort struct {
	c       *Conn
	flushes *int
	failErr error
}

func (p flushPort) Read(b []byte) (int, error)  { return p.c.Read(b) }
func (p flushPort) Write(b []byte) (int, error) { return p.c.Write(b) }
func (p flushPort) Close() error                { return p.c.Close() }
func (p flushPort) Flush() error {
	*p.flushes++
	// what has arrived and has not been read is gone (what is still on its way cannot be reached by a flush)
	p.c.lock()
	now := time.Now()
	kept := p.c.in.segs[:0]
	for _, sg := range p.c.in.segs {
		if sg.at.IsZero() || sg.at.After(now) {
			kept = append(kept, sg)
		}
	}
	p.c.in.segs = kept
	p.c.in.headAt(now)
	p.c.unlock()
	p.c.sim.Logf("flush %s", p.c.Name)
	return p.failErr
}

// ioErrKinds: what a broken connection reports in practice. Each wraps ErrSimIO so that oracles can ask for the cause.
var ioErrCauses = []error{nil, syscall.ECONNRESET, syscall.EPIPE, syscall.ECONNABORTED, net.ErrClosed, io.ErrClosedPipe, io.ErrUnexpectedEOF, foreignTimeout{}}

// foreignTimeout is a net.Error that says Timeout() but does not wrap os.ErrDeadlineExceeded (what transports other than
// the standard library's report, e.g. a TLS or serial-over-IP wrapper): to the client it is an ordinary I/O failure.
type foreignTimeout struct{}

func (foreignTimeout) Error() string   { return "operation timed out (foreign transport)" }
func (foreignTimeout) Timeout() bool   { return true }
func (foreignTimeout) Temporary() bool { return true }

func genIOErr(t *Tape) error {
	c := ioErrCauses[t.Choose(len(ioErrCauses))]
	if c == nil {
		return nil
	}
	if t.Choose(2) == 0 {
		return &net.OpError{Op: "read", Net: "sim", Err: fmt.Errorf("%w: %w", c, ErrSimIO)}
	}
	return fmt.Errorf("%w: %w", ErrSimIO, c)
}

func (sc *C1) ioErr() error {
	if sc.IOErr != nil {
		return sc.IOErr
	}
	return ErrSimIO
}

var errSimFlush = fmt.Errorf("simulated flush failure: %w", ErrSimIO)

// connGen is what the dial function hands to the client: one generation of "the connection". The harness keeps one
// underlying simulated stream; a later Connect replaces the generation, and Close ends it. A client that goes on using a
// replaced or closed generation is talking to nobody.
type connGen struct {
	*Conn
	gen    int
	cur    *int
	closed bool
	stale  *string
}

func (g *connGen) dead(op string) error {
	if g.closed {
		return &net.OpError{Op: op, Net: "sim", Err: net.ErrClosed}
	}
	if g.gen != *g.cur {
		if *g.stale == "" {
			*g.stale = fmt.Sprintf("%s on connection #%d although Connect has replaced it with #%d", op, g.gen, *g.cur)
		}
		return &net.OpError{Op: op, Net: "sim", Err: fmt.Errorf("connection replaced: %w", ErrSimIO)}
	}
	return nil
}

func (g *connGen) Read(b []byte) (int, error) {
	if err := g.dead("read"); err != nil {
		return 0, err
	}
	return g.Conn.Read(b)
}

func (g *connGen) Write(b []byte) (int, error) {
	if err := g.dead("write"); err != nil {
		return 0, err
	}
	return g.Conn.Write(b)
}

func (g *connGen) SetWriteDeadline(t time.Time) error {
	if g.closed {
		return g.dead("set write deadline")
	}
	return g.Conn.SetWriteDeadline(t)
}

func (g *connGen) Close() error {
	if g.closed {
		return nil
	}
	g.closed = true
	g.Conn.lock()
	g.Conn.record(IORec{Kind: "close"})
	g.Conn.unlock()
	g.Conn.sim.Logf("close %s #%d", g.Conn.Name, g.gen)
	return nil
}

// RunC1 executes one client1 run inside the current synctest bubble.
func RunC1(rc *RunCtx, sc *C1) *C1Outcome {
	s := NewSim(rc.Sched)
	s.Tracing = rc.Tracing
	if sc.Marathon > 0 || rc.longRun {
		s.MaxSteps = 2000000
	} else if sc.ZeroNilReads {
		s.MaxSteps = 400000 // every empty poll of a non-blocking connection is a step
	}
	out := &C1Outcome{}
	defer s.Activate()()

	cl, _ := NewPipe(s, "c")
	cl.Name = "cli"
	ctx, cancel := context.WithCancel(context.Background())
	if sc.CtxWithCause {
		// the application cancels with a reason of its own (context.WithCancelCause / WithTimeoutCause): what the call
		// reports is still the context's error
		c0, cc := context.WithCancelCause(context.Background())
		ctx, cancel = c0, func() { cc(errors.New("operator pressed stop")) }
	}
	defer cancel()
	if sc.Fault == FCtxDeadline {
		var c2 context.CancelFunc
		if sc.CtxWithCause {
			ctx, c2 = context.WithTimeoutCause(ctx, sc.CancelAt, errors.New("poll cycle budget used up"))
		} else {
			ctx, c2 = context.WithTimeout(ctx, sc.CancelAt)
		}
		defer c2()
	}
	if sc.Fault == FCancelBefore {
		cancel()
	}

	cur := sc // the call whose reply script the next write arms (follow-up calls: sc.Then)
	curOut := out
	arm := func(c *Conn, _ []byte) {
		sc := cur
		if sc.Fault == FCancelAfterWrite {
			cancel()
		}
		off := 0
		var segs []seg
		for i, ch := range sc.Chunks {
			if sc.Endless && i == 1 {
				// a flood that never ends: everything after the first chunk arrives as one run that is longer than any
				// read asks for (the transport tops it up whenever it runs dry), so every read is filled to the brim
				run := append([]byte(nil), sc.Reply[off:]...)
				for k := 0; k < 8192; k++ {
					run = append(run, byte(0x3c^k))
				}
				segs = append(segs, seg{data: run, gap: ch.Gap, solo: true})
				break
			}
			segs = append(segs, seg{data: sc.Reply[off : off+ch.N], gap: ch.Gap, solo: true, err: ch.Err})
			off += ch.N
		}
		switch sc.Fault {
		case FEOF:
			if sc.ErrWithData && len(segs) > 0 {
				segs[len(segs)-1].err = io.EOF
			} else {
				segs = append(segs, seg{err: io.EOF, gap: sc.FaultGap, solo: true})
			}
		case FIOErr:
			if sc.ErrWithData && len(segs) > 0 {
				segs[len(segs)-1].err = sc.ioErr()
			} else {
				segs = append(segs, seg{err: sc.ioErr(), gap: sc.FaultGap, solo: true})
			}
		default:
			if sc.EOFWithLast && len(segs) > 0 {
				segs[len(segs)-1].err = io.EOF
			}
		}
		if len(sc.LateRest) > 0 {
			segs = append(segs, seg{data: sc.LateRest, gap: sc.ReadTimeout + 40*time.Millisecond, solo: true})
		}
		c.Push(segs...)
		if sc.Fault == FEOF || sc.Fault == FIOErr || sc.EOFWithLast {
			c.PushEOF()
		}
		if sc.Endless {
			c.Endless = true
			c.ArmEndless()
		}
	}
	cl.OnWrite = arm
	switch sc.Fault {
	case FWriteErr:
		cl.WriteErr = sc.ioErr()
	case FShortWrite:
		cl.WriteErr = fmt.Errorf("short write: %w", sc.ioErr())
		cl.WriteErrN = 3
	case FWriteDeadlineErr:
		cl.WDeadlineErr = fmt.Errorf("set write deadline: %w", sc.ioErr()) // what a connection that is already gone answers
	}
	if sc.ZeroNilReads && sc.Kind != KSerial {
		cl.ZeroNilPoll = 20 * time.Microsecond
		rc.Probe("zero_nil_polling_connection")
	}
	if sc.WrappedTimeouts {
		// real transports do not hand out the bare sentinel: sockets wrap it in *net.OpError, files in *fs.PathError, and
		// connection wrappers annotate with %w (such an error has no Timeout method of its own)
		switch sc.TID % 3 {
		case 0:
			cl.TimeoutErr = &net.OpError{Op: "read", Net: "sim", Err: os.ErrDeadlineExceeded}
		case 1:
			cl.TimeoutErr = &fs.PathError{Op: "read", Path: "/dev/ttyS0", Err: os.ErrDeadlineExceeded}
		default:
			cl.TimeoutErr = fmt.Errorf("conn wrapper: %w", os.ErrDeadlineExceeded)
		}
	}

	var hooks *recHooks
	var installed modbus.ClientHooks
	if sc.Hooks {
		hooks = &recHooks{panicAt: sc.PanicHook}
		if sc.HookDelay > 0 {
			hooks.delay = func() { takeTime(s, "hook", cl.locker(), sc.HookDelay) }
		}
		installed = hooks
		if sc.ValueHooks {
			// hooks implemented on a value type and installed by value (its zero value, as a stateless logger is)
			valueHooksTarget = hooks
			installed = valueHooks{}
		}
	}
	var doer interface {
		Do(context.Context, packet.Request) (packet.Response, error)
	}
	var connect func() error
	closeClient := func() error { return nil }
	gen := 0
	reading := 0
	cl.OnReadBegin = func(*Conn) { reading++ }
	cl.OnReadEnd = func(*Conn) { reading-- }
	switch sc.Kind {
	case KTCP, KRTU:
		conf := modbus.ClientConfig{
			ReadTimeout:  sc.ReadTimeout,
			WriteTimeout: sc.WriteTimeout,
			DialContextFunc: func(dctx context.Context, _ string) (net.Conn, error) {
				if sc.Fault == FDialFail {
					if sc.TypedNilDial {
						// what `return tls.Dial(...)` style dial functions hand back on failure: a nil pointer in a non-nil interface
						return (*Conn)(nil), fmt.Errorf("dial refused: %w", ErrSimRefused)
					}
					return nil, fmt.Errorf("dial refused: %w", ErrSimRefused)
				}
				gen++
				if sc.DialCtxBound {
					// a dial function that ties what it sets up (a tunnel, an in-memory device) to the context it is given,
					// as DialContext-style functions may: when that context ends, the connection is gone
					g := gen
					context.AfterFunc(dctx, func() {
						if g == gen {
							cl.Close()
						}
					})
				}
				if gen > 1 {
					cl.lock()
					cl.rdl, cl.wdl = time.Time{}, time.Time{} // a fresh connection has no deadlines set
					cl.unlock()
				}
				return &connGen{Conn: cl, gen: gen, cur: &gen, stale: &out.StaleIO}, nil
			},
		}
		if hooks != nil {
			conf.Hooks = installed
		}
		var c *modbus.Client
		switch {
		case sc.ObserveParse:
			// the generic constructor honours ParseResponseFunc, which lets the harness see when (and with what)
			// the parser is invoked; Do/do are the same code for every constructor
			inner := packet.ParseTCPResponse
			conf.AsProtocolErrorFunc = packet.AsTCPErrorPacket
			if sc.Kind == KRTU {
				inner = packet.ParseRTUResponseWithCRC
				conf.AsProtocolErrorFunc = func(b []byte) error {
					if !RTUConsistent(b) {
						return nil
					}
					return packet.AsRTUErrorPacket(b)
				}
			}
			conf.ParseResponseFunc = func(b []byte) (packet.Response, error) {
				curOut.ParseCalls++
				curOut.ParseArg = append([]byte(nil), b...)
				if hooks != nil {
					n := len(hooks.recs)
					curOut.ParseAfterHook = n > 0 && hooks.recs[n-1].Kind == "parse"
				}
				return inner(b)
			}
			c = modbus.NewClient(conf)
		case sc.Kind == KTCP:
			switch sc.ConfOneFunc {
			case 1:
				conf.ParseResponseFunc = packet.ParseTCPResponse
			case 2:
				conf.AsProtocolErrorFunc = packet.AsTCPErrorPacket
			}
			c = modbus.NewTCPClientWithConfig(conf)
		default:
			switch sc.ConfOneFunc {
			case 1:
				conf.ParseResponseFunc = packet.ParseRTUResponseWithCRC
			case 2:
				conf.AsProtocolErrorFunc = func(b []byte) error {
					if !RTUConsistent(b) {
						return nil
					}
					return packet.AsRTUErrorPacket(b)
				}
			case 3:
				// a config written for the generic constructor (the CRC-less RTU functions, as the library's own example
				// of NewClient uses them) handed to the RTU constructor: an RTU client checks the CRC whatever it is given
				conf.ParseResponseFunc = packet.ParseRTUResponse
				conf.AsProtocolErrorFunc = packet.AsRTUErrorPacket
			}
			c = modbus.NewRTUClientWithConfig(conf)
		}
		doer = c
		connect = func() error { return c.Connect(context.Background(), "sim:502") }
		closeClient = c.Close
	case KSerial:
		cl.SerialMode = true
		cl.PortTimeout = sc.PortTimeout
		cl.TOStyle = sc.TOStyle
		cl.MinReadCost = 500 * time.Microsecond
		var port io.ReadWriteCloser
		if sc.Flusher {
			fp := flushPort{c: cl, flushes: &out.Flushes}
			if sc.Fault == FFlushFail {
				fp.failErr = errSimFlush
			}
			port = fp
		} else if sc.DeadlinePort {
			port = deadlinePort{plainPort{cl}}
		} else {
			port = plainPort{cl}
		}
		opts := []modbus.SerialClientOptionFunc{modbus.WithSerialReadTimeout(sc.ReadTimeout)}
		if hooks != nil {
			opts = append(opts, modbus.WithSerialHooks(installed))
		} else if sc.NilHooksOption {
			opts = append(opts, modbus.WithSerialHooks(nil)) // "no hooks" said explicitly
		}
		if sc.Fault == FNotConnected {
			port = nil
		}
		doer = modbus.NewSerialClient(port, opts...)
		connect = func() error { return nil }
	}

	firstRecEnd, firstHookEnd := -1, -1
	s.Go("caller", false, func(tk *Task) {
		if sc.Fault != FNotConnected {
			out.ConnErr = connect()
		}
		var req packet.Request = sc.LibReq
		if sc.Fault == FNilRequest {
			req = nil
		}
		t0 := s.Now()
		out.Start = t0
		func() {
			if sc.PanicHook != "" {
				// the application's own recover around its polling step: user code called by the client panicked
				defer func() {
					if r := recover(); r != nil {
						out.HookPanicked = true
						out.Err = fmt.Errorf("recovered: %v", r)
					}
				}()
			}
			out.Resp, out.Err = doer.Do(ctx, req)
		}()
		out.Elapsed = s.Now() - t0
		out.Returned = true
		out.PendingRead = reading > 0
		s.Logf("do-returned err=%v", out.Err)
		// a long history: the same poll repeated many times (counters, caches and whatever else a client may accumulate);
		// what the transport and the hooks record from here on belongs to the repetitions, not to the first call
		if sc.Marathon > 0 {
			cl.lock()
			firstRecEnd = len(cl.Rec)
			if hooks != nil {
				firstHookEnd = len(hooks.recs)
			}
			cl.unlock()
		}
		for k := 0; k < sc.Marathon && out.Err == nil; k++ {
			cl.lock()
			cl.in.segs, cl.in.eof = nil, false
			cl.unlock()
			resp, err := doer.Do(context.Background(), sc.LibReq)
			if err != nil || isNilResponse(resp) || !bytes.Equal(resp.Bytes(), out.Resp.Bytes()) {
				if out.MarathonBad == "" {
					out.MarathonBad = fmt.Sprintf("repetition %d of the same request on the same client: err=%v, response equal to the first one: %v", k+1, err, err == nil && !isNilResponse(resp) && bytes.Equal(resp.Bytes(), out.Resp.Bytes()))
				}
				break
			}
			out.MarathonDone++
		}
		// follow-up calls on the same client and connection (each with its own reply script)
		for next := sc.Then; next != nil; next = next.Then {
			cl.lock()
			// what the previous exchange left unread is gone (a real port is flushed / drained) - unless the application
			// connects again first: then it is gone exactly when the client really took a new connection (the old
			// connection's late bytes stay on the old connection)
			if !next.KeepStale && (next.Reconnect == 0 || sc.Kind == KSerial) {
				cl.in.segs, cl.in.eof = nil, false
			}
			genBefore := gen
			o := &C1Outcome{recFrom: len(cl.Rec)}
			if hooks != nil {
				o.hookFrom = len(hooks.recs)
			}
			cl.unlock()
			cur, curOut = next, o
			if next.IdleBefore > 0 && tk.Sleep("idle-between-calls", next.IdleBefore) == Drained {
				return
			}
			if sc.Kind != KSerial && sc.Fault != FNotConnected && sc.Fault != FDialFail {
				switch next.Reconnect {
				case 1:
					o.ConnErr = connect()
				case 2:
					closeClient()
					o.ConnErr = connect()
				}
				if !next.KeepStale && next.Reconnect != 0 && gen != genBefore {
					cl.lock()
					cl.in.segs, cl.in.eof = nil, false
					cl.unlock()
				}
			} else if !next.KeepStale && next.Reconnect != 0 {
				cl.lock()
				cl.in.segs, cl.in.eof = nil, false
				cl.unlock()
			}
			t1 := s.Now()
			o.Start = t1
			// follow-up calls get a fresh context: a deadline left over from the first call could fall on the follow-up's own
			// timeout instant, and Go picks at random when both are ready in one select (not a tape decision)
			func() {
				if sc.PanicHook != "" {
					defer func() { // (the hook had not been reached in the first call: it panics in this one)
						if r := recover(); r != nil {
							o.HookPanicked = true
							o.Err = fmt.Errorf("recovered: %v", r)
						}
					}()
				}
				o.Resp, o.Err = doer.Do(context.Background(), next.LibReq)
			}()
			o.Elapsed = s.Now() - t1
			o.Returned = true
			o.PendingRead = reading > 0
			s.Logf("do-returned err=%v", o.Err)
			out.Next = append(out.Next, o)
		}
	})
	if sc.Fault == FCancelAt {
		s.Go("canceller", true, func(tk *Task) {
			if tk.Sleep("cancel-timer", sc.CancelAt) != Drained {
				s.Logf("cancel")
			}
			cancel()
		})
	}
	s.Run()
	out.Hang = s.Hang
	out.OverStep = s.OverStep
	// what had returned when the run ended; a call that comes back only because the simulation is being torn down
	// (its transport calls are released with errors then) did not return
	returned, nnext := out.Returned, len(out.Next)
	s.Drain()
	out.Returned = returned
	if len(out.Next) > nnext {
		out.Next = out.Next[:nnext]
	}
	if len(s.Panics) > 0 {
		out.Panic = &s.Panics[0]
	}
	end := len(cl.Rec)
	if len(out.Next) > 0 {
		end = out.Next[0].recFrom
	}
	if firstRecEnd >= 0 && firstRecEnd < end {
		end = firstRecEnd
	}
	fill := func(o *C1Outcome, recs []IORec) {
		o.Rec = recs
		for _, r := range recs {
			switch r.Kind {
			case "read":
				o.Consumed = append(o.Consumed, r.Data...)
			case "write":
				o.Written = append(o.Written, r.Data...)
			}
		}
	}
	fill(out, cl.Rec[:end])
	out.WDeadlineRejected = cl.WDeadlineRejected
	for i, o := range out.Next {
		e := len(cl.Rec)
		if i+1 < len(out.Next) {
			e = out.Next[i+1].recFrom
		}
		fill(o, cl.Rec[o.recFrom:e])
	}
	if hooks != nil {
		hend := len(hooks.recs)
		if len(out.Next) > 0 {
			hend = out.Next[0].hookFrom
		}
		if firstHookEnd >= 0 && firstHookEnd < hend {
			hend = firstHookEnd
		}
		out.Hooks = hooks.recs[:hend]
		for i, o := range out.Next {
			e := len(hooks.recs)
			if i+1 < len(out.Next) {
				e = out.Next[i+1].hookFrom
			}
			o.Hooks = hooks.recs[o.hookFrom:e]
		}
	}
	rc.finishFrom(s)
	return out
}

// ---- generation helpers shared by C07/C08/C12/C19 ----

var excCodes = []byte{1, 2, 3, 4, 5, 6, 8, 10, 11}

// genC1Base draws client kind, request and its well-formed reply.
// ok=false when the library's constructor refused the (legal) request: not this property's business.
func genC1Base(t *Tape, allowExc bool) (sc *C1, ok bool) { return genC1BaseKind(t, allowExc, -1) }

// genC1BaseKind: as genC1Base with the client kind fixed (follow-up calls share the first call's client).
func genC1BaseKind(t *Tape, allowExc bool, kind int) (sc *C1, ok bool) {
	sc = &C1{}
	sc.Kind = ClientKind(t.Choose(3))
	if kind >= 0 {
		sc.Kind = ClientKind(kind)
	}
	fc := AllFCs[t.Choose(len(AllFCs))]
	sizeClass := t.ChooseAs("sizeclass", 4)
	sc.Req = GenLegalReq(t, fc)
	if sizeClass == 3 {
		SmallReq(&sc.Req) // short replies: every cut position and prefix length is hit densely
	}
	sc.Unit = byte(1 + t.Choose(247))
	if t.Chance(1, 10) {
		sc.Unit = []byte{0, 255, 248, 1}[t.Choose(4)] // 0 and 248-255 are unit ids on the wire like any other (gateways use them); a device that answers is answered for
	}
	sc.TID = uint16(1 + t.Choose(65535))
	if t.Chance(1, 12) {
		sc.TID = []uint16{0, 65535, 1, 256, 255}[t.Choose(5)] // where a transaction counter starts and wraps
	}
	lr, err := BuildLibRequest(sc.Req, sc.Unit, sc.TID, sc.Kind.Framing())
	if err != nil {
		return sc, false
	}
	sc.LibReq = lr
	var pdu []byte
	if allowExc && t.ChooseAs("exc", 5) >= 4 {
		sc.IsExc = true
		if t.Chance(1, 4) {
			sc.ExcCode = byte(1 + t.Choose(255))
		} else {
			sc.ExcCode = excCodes[t.Choose(len(excCodes))]
		}
		pdu = []byte{fc | 0x80, sc.ExcCode}
	} else {
		dev := NewDevice(uint64(t.Choose(1 << 30)))
		dev.SpecialEvery = []int{0, 0, 3, 1}[t.Choose(4)] // register values at which representations change or that resemble protocol bytes
		if fc == 17 {
			dev.ServerID = t.Bytes(1 + t.Choose(12))
			if t.Choose(2) == 1 {
				dev.Extra = t.Bytes(1 + t.Choose(8))
			}
			dev.Status = []byte{0xFF, 0x00}[t.Choose(2)]
		}
		pdu = dev.Exec(sc.Req.PDU())
		if IsExceptionPDU(pdu) {
			// the model device refuses a request we generated as legal: generator bug, be loud
			panic(fmt.Sprintf("refmodel refused generated request %v: % x", sc.Req, pdu))
		}
	}
	if sc.Kind.Framing() == TCP {
		sc.Reply = FrameTCP(sc.TID, sc.Unit, pdu)
	} else {
		if !sc.IsExc && (fc == 3 || fc == 4) && len(pdu) >= 6 && t.Chance(1, 12) {
			// register values are the device's business: here one register happens to hold what would be the CRC of
			// everything before it, so a proper prefix of this reply looks like a finished frame
			m := t.Choose((len(pdu) - 2) / 2)
			c := RefCRC16(append([]byte{sc.Unit}, pdu[:2+2*m]...))
			pdu[2+2*m], pdu[3+2*m] = byte(c), byte(c>>8)
		}
		sc.Reply = FrameRTU(sc.Unit, pdu)
	}
	// knobs
	sc.ReadTimeout = []time.Duration{2 * time.Second, 20 * time.Millisecond, 100 * time.Millisecond, 500 * time.Millisecond, 5 * time.Millisecond}[t.Choose(5)]
	sc.WriteTimeout = []time.Duration{time.Second, 10 * time.Millisecond}[t.Choose(2)]
	if sc.Kind == KSerial {
		sc.PortTimeout = []time.Duration{10 * time.Millisecond, time.Millisecond, 3 * time.Millisecond, 50 * time.Millisecond, 100 * time.Millisecond}[t.Choose(5)]
		sc.TOStyle = TimeoutStyle(t.Choose(3))
		sc.Flusher = t.Choose(2) == 1
	}
	return sc, true
}

func gapOf(t *Tape) time.Duration {
	switch t.PickAs("gap", 5, 3, 2) {
	case 1:
		return time.Duration(50+t.Choose(400)) * time.Microsecond // shorter than one per-read deadline
	case 2:
		return time.Duration(600+t.Choose(4000)) * time.Microsecond // one or more empty timed-out reads in between
	}
	return 0
}

// genChunks cuts n bytes into successive reads. mode: 0 whole, 1 single cut at p, 2 last k separate,
// 3 one byte per read, 4 random multi-cut.
func genChunks(t *Tape, n int) []Chunk {
	mode := t.PickAs("cutmode", 2, 3, 2, 1, 4)
	param := t.ChooseAs("cutparam", 1024)
	var sizes []int
	switch {
	case n <= 1 || mode == 0:
		sizes = []int{n}
	case mode == 1:
		p := 1 + param%(n-1)
		sizes = []int{p, n - p}
	case mode == 2:
		k := 1 + param%4
		if k >= n {
			k = n - 1
		}
		sizes = []int{n - k, k}
	case mode == 3:
		for i := 0; i < n; i++ {
			sizes = append(sizes, 1)
		}
	default:
		den := 2 + param%14
		cur := 0
		for i := 0; i < n; i++ {
			cur++
			if i == n-1 || t.Chance(1, den) {
				sizes = append(sizes, cur)
				cur = 0
			}
		}
	}
	out := make([]Chunk, len(sizes))
	longGaps := 0
	for i, sz := range sizes {
		g := time.Duration(0)
		if len(sizes) <= 40 || i%8 == 0 {
			g = gapOf(t)
		}
		if g > 500*time.Microsecond {
			longGaps++
			if longGaps > 12 {
				g = 0
			}
		}
		out[i] = Chunk{N: sz, Gap: g}
	}
	return out
}

func totalGap(ch []Chunk) time.Duration {
	var d time.Duration
	for _, c := range ch {
		d += c.Gap
	}
	return d
}

func (sc *C1) describe() map[string]any {
	ch := make([]string, 0, len(sc.Chunks))
	for i, c := range sc.Chunks {
		if i >= 12 {
			ch = append(ch, fmt.Sprintf("...(%d chunks)", len(sc.Chunks)))
			break
		}
		if c.Err != nil {
			ch = append(ch, fmt.Sprintf("%dB+%v+%v", c.N, c.Gap, c.Err))
			continue
		}
		ch = append(ch, fmt.Sprintf("%dB+%v", c.N, c.Gap))
	}
	d := map[string]any{
		"client":       sc.Kind.String(),
		"request":      sc.Req.String(),
		"unit":         sc.Unit,
		"reply_len":    len(sc.Reply),
		"reply":        fmt.Sprintf("%x", trunc(sc.Reply, 48)),
		"exception":    sc.IsExc,
		"chunks":       ch,
		"read_timeout": sc.ReadTimeout.String(),
		"fault":        sc.Fault.String(),
	}
	if sc.Kind == KSerial {
		d["port_timeout"] = sc.PortTimeout.String()
		d["timeout_style"] = int(sc.TOStyle)
		d["flusher"] = sc.Flusher
	}
	return d
}

func trunc(b []byte, n int) []byte {
	if len(b) > n {
		return b[:n]
	}
	return b
}

// Full0 is the complete reply this scenario delivers when no fault truncates it.
func (sc *C1) Full0() []byte { return sc.Reply }

// valueHooks forwards to the run's recorder; it carries no state of its own, so its zero value is the value installed.
type valueHooks struct{}

var valueHooksTarget *recHooks

func (valueHooks) BeforeWrite(b []byte)                   { valueHooksTarget.BeforeWrite(b) }
func (valueHooks) AfterEachRead(b []byte, n int, e error) { valueHooksTarget.AfterEachRead(b, n, e) }
func (valueHooks) BeforeParse(b []byte)                   { valueHooksTarget.BeforeParse(b) }

// ---- long histories: many healthy exchanges on one client before the call under test ----

// historyLen draws how many exchanges precede the call under test: around the places where 8-bit counters wrap, enough
// long replies to fill a few KiB of whatever a client may keep, or a few hundred of any size.
func historyLen(t *Tape) int {
	switch t.Choose(4) {
	case 0:
		return []int{255, 254, 256, 257, 511}[t.Choose(5)]
	case 1:
		return 200 + t.Choose(200)
	}
	return 16 + t.Choose(30)
}

// genHistory draws n healthy exchanges for sc's client (each reply is delivered whole and at once unless slow is set,
// then every reply takes a few milliseconds to come). Function 23 is left out: the library's expected length for it is
// a known finding of C07 and every such call would end in a timeout. The exchanges share sc's client configuration.
func genHistory(rc *RunCtx, sc *C1, n int, slow bool) []*C1 {
	return genHistoryFrag(rc, sc, n, slow, false)
}

// genHistoryFrag: with frag set the replies of the history arrive cut into reads like any reply under test (for
// properties that do not depend on those exchanges succeeding).
func genHistoryFrag(rc *RunCtx, sc *C1, n int, slow, frag bool) []*C1 {
	t := rc.Scen
	var hist []*C1
	for len(hist) < n {
		var h *C1
		for try := 0; try < 6; try++ {
			c, ok := genC1BaseKind(t, false, int(sc.Kind))
			if ok && c.Req.FC != 23 {
				h = c
				break
			}
		}
		if h == nil {
			break
		}
		h.Chunks = []Chunk{{N: len(h.Reply)}}
		if slow {
			h.Chunks[0].Gap = time.Duration(2+t.Choose(60)) * time.Millisecond // a device behind a gateway
		}
		if frag {
			h.Chunks = genChunks(t, len(h.Reply))
			if 2*totalGap(h.Chunks)+50*time.Millisecond > sc.ReadTimeout {
				for i := range h.Chunks {
					h.Chunks[i].Gap = 0 // one client, one read timeout: this reply must fit into it
				}
			}
		}
		h.Full = h.Reply
		h.ReadTimeout, h.WriteTimeout, h.PortTimeout, h.TOStyle, h.Flusher = sc.ReadTimeout, sc.WriteTimeout, sc.PortTimeout, sc.TOStyle, sc.Flusher
		h.Hooks, h.ValueHooks, h.DeadlinePort, h.NilHooksOption = sc.Hooks, sc.ValueHooks, sc.DeadlinePort, sc.NilHooksOption
		h.ObserveParse, h.ConfOneFunc, h.WrappedTimeouts = sc.ObserveParse, sc.ConfOneFunc, sc.WrappedTimeouts
		hist = append(hist, h)
	}
	return hist
}

// RunC1Long is RunC1 with the step budget of a long history.
func RunC1Long(rc *RunCtx, sc *C1) *C1Outcome {
	rc.longRun = true
	defer func() { rc.longRun = false }()
	return RunC1(rc, sc)
}

// chainCalls links the calls so that RunC1(calls[0]) makes them one after another on one client.
func chainCalls(calls []*C1) *C1 {
	for i := 0; i+1 < len(calls); i++ {
		calls[i].Then = calls[i+1]
	}
	return calls[0]
}

// outcomeOf returns the outcome of the i-th call of a chain run (nil when the run did not get that far).
func outcomeOf(first *C1Outcome, i int) *C1Outcome {
	if i == 0 {
		return first
	}
	if i-1 < len(first.Next) {
		return first.Next[i-1]
	}
	return nil
}

// historyTrouble describes the first exchange of the history that did not bring its reply ("" when all did), and
// whether a response handed out by one of them changed afterwards.
func historyTrouble(hist []*C1, first *C1Outcome) (failed string, changed string) {
	for i, h := range hist {
		o := outcomeOf(first, i)
		if o == nil || !o.Returned {
			return fmt.Sprintf("exchange %d of the history did not return", i+1), ""
		}
		if o.Err != nil || isNilResponse(o.Resp) {
			return fmt.Sprintf("exchange %d of the history (%s, reply %x delivered whole): err=%v", i+1, h.Req, trunc(h.Reply, 24), o.Err), ""
		}
	}
	for i, h := range hist {
		o := outcomeOf(first, i)
		if got := o.Resp.Bytes(); !bytes.Equal(got, h.Reply) && len(o.Consumed) == len(h.Reply) && changed == "" {
			changed = fmt.Sprintf("the response of exchange %d of %d re-encodes to %x at the end of the run; the reply was %x", i+1, len(hist), trunc(got, 40), trunc(h.Reply, 40))
		}
	}
	return "", changed
}
