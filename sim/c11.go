package sim

// C11 — coil lookup follows the Modbus bit layout and inverts the library's packing
// (write-multiple-coils -> conforming device -> read back -> IsCoilSet).

import (
	"context"
	"fmt"
	"reflect"
	"sort"
	"time"

	modbus "github.com/aldas/go-modbus-client"
	"github.com/aldas/go-modbus-client/packet"
)

func init() {
	Register(&Property{ID: "C11", Run: runC11, Strata: strataC11})
}

// strata: framing x read function x window size class x via builder: first draws of runC11.
func strataC11(tier string) [][]int32 {
	var out [][]int32
	for fr := 0; fr < 2; fr++ {
		for fn := 0; fn < 2; fn++ {
			for sz := 0; sz < 5; sz++ {
				for vb := 0; vb < 2; vb++ {
					out = append(out, []int32{int32(fr), int32(fn), int32(sz), int32(vb)})
				}
			}
		}
	}
	return out
}

type coilQuery struct {
	addr uint16
	got  bool
	err  error
}

func runC11(rc *RunCtx) {
	t := rc.Scen
	fr := Framing(t.Choose(2))
	readInputs := t.Choose(2) == 1 // FC2 instead of FC1
	szClass := t.Choose(5)
	viaBuilder := t.Choose(2) == 1
	var qty int
	switch szClass {
	case 0:
		qty = 1 + t.Choose(8)
	case 1:
		qty = 9 + t.Choose(16)
	case 2:
		qty = 1 + t.Choose(200)
	case 3:
		qty = 1 + t.Choose(2000)
	default:
		qty = []int{8, 16, 1968, 2000, 1999, 17}[t.Choose(6)]
	}
	start := int(t.U16())
	if start+qty > 65536 {
		start = 65536 - qty
	}
	// write pattern (FC15) over an overlapping window, only meaningful for coils (FC1)
	wq := 1 + t.Choose(min(1968, 200+qty))
	if t.Chance(1, 3) {
		wq = min(qty, 1968)
	}
	ws := start + t.Choose(40) - 20
	if t.Chance(1, 3) {
		ws = start
	}
	if ws < 0 {
		ws = 0
	}
	if ws+wq > 65536 {
		ws = 65536 - wq
	}
	pattern := make([]bool, wq)
	pm := t.Choose(4)
	for i := range pattern {
		switch pm {
		case 0:
			pattern[i] = t.Choose(2) == 1
		case 1:
			pattern[i] = i%8 == 0
		case 2:
			pattern[i] = i%9 < 3
		default:
			pattern[i] = true
		}
	}
	unit := byte(1 + t.Choose(3))
	devSeed := uint64(t.Choose(1 << 30))
	// queries: every address in the window plus some before and beyond
	fn := "fc1"
	tab := TabCoils
	if readInputs {
		fn, tab = "fc2", TabDiscrete
	}
	sigBase := fmt.Sprintf("%s|%s", fn, fr)
	payloadBytes := (qty + 7) / 8
	rc.Desc = map[string]any{"framing": fr.String(), "read": fn, "start": start, "quantity": qty, "payload_bytes": payloadBytes, "write_start": ws, "write_quantity": wq, "via_builder": viaBuilder}
	rc.Nontrivial = payloadBytes > 1
	rc.Shape("%s|q=%d|s%%8=%d|ws-s=%d|wq=%d|b=%v|pm=%d", sigBase, qty, start%8, ws-start, bucket(wq), viaBuilder, pm)
	rc.Probe(fmt.Sprintf("%s|bytes=%d|builder=%v", sigBase, bucket(payloadBytes), viaBuilder))

	s := NewSim(rc.Sched)
	s.Tracing = rc.Tracing
	defer s.Activate()()
	dn := NewDevNet(s, devSeed)
	server := "plc-a:502"
	var queries []coilQuery
	var stepErr error
	var builderReqs []modbus.BuilderRequest
	valueCopyBad := ""
	var builderVals [][]modbus.FieldValue
	var builderErrs []error
	var builtDiff string
	var handVals []modbus.FieldValue
	var handBase, handBits int
	s.Go("operator", false, func(tk *Task) {
		ctx := context.Background()
		// one client for the whole session: responses are held across later exchanges on the same client
		cl := netClient(dn, fr, 100*time.Millisecond)
		if err := cl.Connect(ctx, server); err != nil {
			stepErr = err
			return
		}
		defer cl.Close()
		do := func(req packet.Request) (packet.Response, error) { return cl.Do(ctx, req) }
		// interlude: another exchange on the same client while an earlier response is being held
		interlude := func() {
			if !t.Chance(1, 2) {
				return
			}
			q2 := 1 + t.Choose(400)
			s2 := t.Choose(65536 - q2)
			fc2 := byte(1 + t.Choose(2))
			if r2, err := BuildLibRequest(Req{FC: fc2, Addr: uint16(s2), Qty: uint16(q2)}, unit, 10, fr); err == nil {
				do(r2)
			}
		}
		// 1. write the pattern with the library's own packing
		wreq, err := BuildLibRequest(Req{FC: 15, Addr: uint16(ws), Coils: pattern}, unit, 7, fr)
		if err != nil {
			stepErr = fmt.Errorf("write request refused: %w", err)
			return
		}
		if _, err := do(wreq); err != nil {
			stepErr = fmt.Errorf("write failed: %w", err)
			return
		}
		// 2. read back
		if viaBuilder {
			b := modbus.NewRequestBuilder(server, unit)
			for a := start; a < start+qty; a++ {
				if qty <= 40 || a == start || a == start+qty-1 || t.Chance(1, max(1, qty/30)) {
					b.Add(b.Coil(uint16(a)).Name(fmt.Sprintf("c%d", a)))
				}
			}
			// sometimes a second cluster of coil fields far enough away to need a request of its own
			if far := start + qty + 2100; far+50 < 65536 && t.Chance(1, 2) {
				for i := 0; i < 1+t.Choose(12); i++ {
					a := far + t.Choose(50)
					b.Add(b.Coil(uint16(a)).Name(fmt.Sprintf("d%d_%d", a, i)))
				}
			}
			var reqs []modbus.BuilderRequest
			var berr error
			switch {
			case !readInputs && fr == TCP:
				reqs, berr = b.ReadCoilsTCP()
			case !readInputs:
				reqs, berr = b.ReadCoilsRTU()
			case fr == TCP:
				reqs, berr = b.ReadDiscreteInputsTCP()
			default:
				reqs, berr = b.ReadDiscreteInputsRTU()
			}
			if berr != nil || len(reqs) < 1 {
				stepErr = fmt.Errorf("builder produced %d requests, error %v", len(reqs), berr)
				return
			}
			sortBuilderRequests(reqs)
			builderReqs = reqs
			resps := make([]packet.Response, len(reqs))
			for i := range reqs {
				switch q := reqs[i].Request.(type) { // constructors draw the transaction id from the global math/rand
				case *packet.ReadCoilsRequestTCP:
					q.TransactionID = uint16(9 + i)
				case *packet.ReadDiscreteInputsRequestTCP:
					q.TransactionID = uint16(9 + i)
				}
				resp, err := do(reqs[i].Request)
				if err != nil {
					stepErr = fmt.Errorf("read failed: %w", err)
					return
				}
				resps[i] = resp
			}
			interlude()
			for i := range reqs {
				vals, err := reqs[i].ExtractFields(resps[i], true)
				builderVals = append(builderVals, vals)
				builderErrs = append(builderErrs, err)
				// the same response held by value (a copy of what the pointer points to - what a server handler builds as a
				// struct literal is such a value): extraction must give the same
				if v := reflect.ValueOf(resps[i]); v.Kind() == reflect.Ptr && !v.IsNil() && valueCopyBad == "" {
					if pr, ok := v.Elem().Interface().(packet.Response); ok {
						vals2, err2 := reqs[i].ExtractFields(pr, true)
						if a, b := renderFieldValues(vals, err), renderFieldValues(vals2, err2); a != b {
							valueCopyBad = fmt.Sprintf("request %d: extraction from the response yields %s (%v), from a copy of it held by value %s (%v)", i, trunc([]byte(a), 120), err, trunc([]byte(b), 120), err2)
						}
					}
				}
			}
			// the same responses through a hand-made field list (Fields is public): coils asked for under two names, and
			// addresses outside what the response holds - each must be answered for itself
			if len(reqs) > 0 && resps[0] != nil {
				r0 := reqs[0]
				npay := len(coilPayload(resps[0])) * 8
				base := int(r0.StartAddress)
				var fs []modbus.Field
				mk := func(a int, name string) {
					if a >= 0 && a < 65536 {
						fs = append(fs, modbus.Field{Name: name, ServerAddress: server, UnitID: unit, Type: modbus.FieldTypeCoil, Address: uint16(a)})
					}
				}
				for k := 0; k < 3; k++ {
					a := base + t.Choose(max(1, npay))
					mk(a, fmt.Sprintf("in%d", k))
					mk(a, fmt.Sprintf("in%d_again", k))
				}
				for _, a := range []int{base + npay, base + npay + 3, base - 1, base - 9} {
					mk(a, fmt.Sprintf("out%d", a))
					mk(a, fmt.Sprintf("out%d_again", a))
				}
				if t.Chance(2, 3) {
					// a hand-made list is in whatever order the application wrote it: fields outside the window may come
					// before fields inside it (wave 14)
					for k := len(fs) - 1; k > 0; k-- {
						j := t.Choose(k + 1)
						fs[k], fs[j] = fs[j], fs[k]
					}
				}
				hand := modbus.BuilderRequest{Request: r0.Request, ServerAddress: r0.ServerAddress, UnitID: r0.UnitID, StartAddress: r0.StartAddress, Fields: fs}
				hv, _ := hand.ExtractFields(resps[0], true)
				handVals, handBase, handBits = hv, base, npay
			}
			return
		}
		fc := byte(1)
		if readInputs {
			fc = 2
		}
		rreq, err := BuildLibRequest(Req{FC: fc, Addr: uint16(start), Qty: uint16(qty)}, unit, 8, fr)
		if err != nil {
			stepErr = fmt.Errorf("read request refused: %w", err)
			return
		}
		resp, err := do(rreq)
		if err != nil {
			stepErr = fmt.Errorf("read failed: %w", err)
			return
		}
		type coilResp interface {
			IsCoilSet(startAddress uint16, coilAddress uint16) (bool, error)
		}
		type inputResp interface {
			IsInputSet(startAddress uint16, inputAddress uint16) (bool, error)
		}
		ask := func(a uint16) (bool, error) {
			if ir, ok := resp.(inputResp); ok && readInputs {
				return ir.IsInputSet(uint16(start), a)
			}
			return resp.(coilResp).IsCoilSet(uint16(start), a)
		}
		interlude()
		if t.Chance(1, 2) {
			// the application logs what it received before it looks anything up (once, or twice)
			logLine(resp)
			if t.Chance(1, 3) {
				logLine(resp)
			}
		}
		addrs := map[int]bool{}
		for a := start; a < start+8*payloadBytes && a < 65536; a++ {
			if qty <= 300 || a < start+20 || a >= start+qty-20 || t.Chance(1, 16) {
				addrs[a] = true
			}
		}
		for _, d := range []int{-1, -2, -8, -9, -100} {
			addrs[start+d] = true
		}
		for _, d := range []int{0, 1, 7, 8, 100} {
			addrs[start+8*payloadBytes+d] = true
		}
		// the same response assembled in code (as a server implementation would, with or without the byte count field
		// filled in) must answer every lookup exactly like the parsed one
		payload := coilPayload(resp)
		var built []func(uint16) (bool, error)
		for _, bc := range []uint8{uint8(len(payload)), 0} {
			if readInputs {
				r := packet.ReadDiscreteInputsResponseTCP{ReadDiscreteInputsResponse: packet.ReadDiscreteInputsResponse{UnitID: unit, InputsByteLength: bc, Data: append([]byte(nil), payload...)}}
				built = append(built, func(a uint16) (bool, error) { return r.IsInputSet(uint16(start), a) })
			} else {
				r := packet.ReadCoilsResponseRTU{ReadCoilsResponse: packet.ReadCoilsResponse{UnitID: unit, CoilsByteLength: bc, Data: append([]byte(nil), payload...)}}
				built = append(built, func(a uint16) (bool, error) { return r.IsCoilSet(uint16(start), a) })
			}
		}
		// far outside: distances at which narrow arithmetic on the bit or byte index would wrap back into the payload
		for _, far := range []int{2048, 2048 + 8, 4096, 8 * 256 * 3, 32768, 65535} {
			for _, d := range []int{0, 1, 8*payloadBytes - 1} {
				addrs[start+far+d] = true
				addrs[start-far+d] = true
			}
		}
		for _, d := range []int{0, 1, 65535} {
			addrs[d] = true
		}
		order := make([]int, 0, len(addrs))
		for a := range addrs {
			if a >= 0 && a < 65536 {
				order = append(order, a)
			}
		}
		sort.Ints(order)
		for _, a := range order {
			{
				v, err := ask(uint16(a))
				queries = append(queries, coilQuery{addr: uint16(a), got: v, err: err})
				for bi, f := range built {
					if payload == nil {
						break
					}
					bv, berr := f(uint16(a))
					if (bv != v || (berr != nil) != (err != nil)) && builtDiff == "" {
						builtDiff = fmt.Sprintf("address %d: parsed response says (%v, err=%v), the same response assembled in code (byte count field set=%v) says (%v, err=%v)", a, v, err != nil, bi == 0, bv, berr != nil)
					}
				}
			}
		}
	})
	s.Run()
	hang := s.Hang || s.OverStep
	s.Drain()
	rc.finishFrom(s)
	for _, p := range s.Panics {
		rc.Violate("panic", sigBase+"|task="+taskKind(p.Task), "panic in %s: %s\n%s", p.Task, p.Value, firstRepoFrames(p.Stack))
	}
	if len(s.Panics) > 0 {
		return
	}
	if hang {
		rc.Violate("hang", sigBase, "run did not finish")
		return
	}
	if stepErr != nil {
		rc.Violate("exchange_failed", sigBase, "%v", stepErr)
		return
	}
	dev := dn.Device(server, unit)
	multi := fmt.Sprintf("multibyte=%v", payloadBytes > 1)
	// the write side on its own: what the device (which unpacks as the specification says) now holds is the pattern
	for i, want := range pattern {
		if got := dev.Bit(TabCoils, uint16(ws+i)); got != want {
			rc.Violate("write_packing_differs", fmt.Sprintf("%s|coils=%s", fr, bucketName(wq)), "write-multiple-coils of %d coils at %d: coil %d (bit %d of data byte %d) was written as %v, the device received %v", wq, ws, ws+i, i%8, i/8, want, got)
			break
		}
	}
	if viaBuilder {
		for _, fv := range handVals {
			a := int(fv.Field.Address)
			inside := a >= handBase && a < handBase+handBits
			switch {
			case inside && fv.Error != nil && a < handBase+builderQuantity(&builderReqs[0]):
				// an error for a coil the response holds is not explained by the byte-order finding, whatever the payload size
				rc.Violate("spurious_bounds_error", sigBase+"|hand_made_fields", "coil field %s at %d lies inside the response window [%d,%d) but extraction reports %v", fv.Field.Name, a, handBase, handBase+handBits, fv.Error)
			case inside && (fv.Error != nil || fv.Value != any(dev.Bit(tab, fv.Field.Address))):
				if a < handBase+builderQuantity(&builderReqs[0]) { // (padding bits are the device's zeros; the known byte-order finding is reported by the main comparison)
					if handBits <= 8 {
						rc.Violate("wrong_coil_value", sigBase+"|hand_made_fields", "coil field %s at %d: extracted %v (err %v), the device's coil is %v", fv.Field.Name, a, fv.Value, fv.Error, dev.Bit(tab, fv.Field.Address))
					}
				}
			case !inside && fv.Error == nil:
				rc.Violate("missing_bounds_error", sigBase+"|hand_made_fields", "coil field %s at %d lies outside the response window [%d,%d) but was extracted as %v without error", fv.Field.Name, a, handBase, handBase+handBits, fv.Value)
			}
		}
		if valueCopyBad != "" {
			rc.Violate("value_copy_differs", sigBase+"|builder", "%s", valueCopyBad)
			return
		}
		for i := range builderReqs {
			fieldReq := &builderReqs[i]
			fieldVals, fieldErr := builderVals[i], builderErrs[i]
			if fieldErr != nil {
				rc.Violate("extract_error", sigBase+"|builder", "coil extraction failed for request %d of %d (window starts at %d, %d fields): %v; first values %v", i, len(builderReqs), fieldReq.StartAddress, len(fieldReq.Fields), fieldErr, firstFV(fieldVals))
				return
			}
			if len(fieldVals) != len(fieldReq.Fields) {
				rc.Violate("missing_field", sigBase+"|builder", "%d coil fields, %d values", len(fieldReq.Fields), len(fieldVals))
				return
			}
			for _, fv := range fieldVals {
				want := dev.Bit(tab, fv.Field.Address)
				if fv.Error != nil || fv.Value != any(want) {
					rc.Violate("wrong_coil_value", fmt.Sprintf("%s|builder|multibyte=%v|%s", sigBase, builderQuantity(fieldReq) > 8, coilFormula(dev, tab, int(fieldReq.StartAddress), builderQuantity(fieldReq), fieldVals)),
						"coil field at %d (request window starts at %d): extracted %v (err %v), the device's coil is %v", fv.Field.Address, fieldReq.StartAddress, fv.Value, fv.Error, want)
					return
				}
			}
		}
		return
	}
	if builtDiff != "" {
		rc.Violate("built_response_differs", sigBase, "%s", builtDiff)
	}
	reported := map[string]bool{}
	for _, q := range queries {
		a := int(q.addr)
		inside := a >= start && a < start+8*payloadBytes
		if !inside {
			if q.err == nil && !reported["bounds"] {
				reported["bounds"] = true
				where := "before_start"
				if a >= start {
					where = "beyond_payload"
				}
				rc.Violate("missing_bounds_error", fmt.Sprintf("%s|%s", sigBase, where), "address %d is outside [%d,%d) (payload of %d bytes) but the lookup returned %v without error", a, start, start+8*payloadBytes, payloadBytes, q.got)
			}
			continue
		}
		if q.err != nil {
			if !reported["inside"] {
				reported["inside"] = true
				rc.Violate("bounds_error_inside", sigBase, "address %d is inside the payload window [%d,%d) but the lookup failed: %v", a, start, start+8*payloadBytes, q.err)
			}
			continue
		}
		want := false
		if a < start+qty {
			want = dev.Bit(tab, q.addr) // padding bits beyond the quantity are zero per the specification
		}
		if q.got != want && !reported["value"] {
			reported["value"] = true
			rc.Violate("wrong_coil_value", fmt.Sprintf("%s|%s|%s", sigBase, multi, queryFormula(dev, tab, start, qty, payloadBytes, queries)),
				"coil %d (window start %d, quantity %d, %d payload bytes): lookup says %v, the device's coil (bit %d of payload byte %d) is %v", a, start, qty, payloadBytes, q.got, (a-start)%8, (a-start)/8, want)
		}
	}
}

func builderQuantity(r *modbus.BuilderRequest) int {
	b := r.Request.Bytes()
	if len(b) == 12 {
		return int(b[10])<<8 | int(b[11])
	} else if len(b) == 8 {
		return int(b[4])<<8 | int(b[5])
	}
	return 0
}

// queryFormula names the mapping the observations are consistent with, if it is a simple one (all observed, none read from the code).
func queryFormula(dev *Device, tab, start, qty, nbytes int, qs []coilQuery) string {
	bit := func(i int) bool { // bit i of the payload the device sent
		if i >= qty {
			return false
		}
		return dev.Bit(tab, uint16(start+i))
	}
	rev, ok := true, false
	for _, q := range qs {
		i := int(q.addr) - start
		if i < 0 || i >= 8*nbytes || q.err != nil {
			continue
		}
		ok = true
		j := (nbytes-1-i/8)*8 + i%8
		if q.got != bit(j) {
			rev = false
		}
	}
	if ok && rev {
		return "observed=byte(len-1-i/8).bit(i%8)"
	}
	return "observed=other"
}

func coilFormula(dev *Device, tab, start, qty int, vs []modbus.FieldValue) string {
	nbytes := (qty + 7) / 8
	if nbytes == 0 {
		return "observed=other"
	}
	for _, fv := range vs {
		if fv.Error != nil {
			return "observed=other"
		}
		i := int(fv.Field.Address) - start
		j := (nbytes-1-i/8)*8 + i%8
		want := false
		if j < qty && start+j < 65536 {
			want = dev.Bit(tab, uint16(start+j))
		}
		if fv.Value != any(want) {
			return "observed=other"
		}
	}
	return "observed=byte(len-1-i/8).bit(i%8)"
}

func firstFV(vs []modbus.FieldValue) string {
	out := ""
	for i, v := range vs {
		if i >= 3 {
			break
		}
		out += fmt.Sprintf("[%s@%d=%v err=%v]", v.Field.Name, v.Field.Address, v.Value, v.Error)
	}
	return out
}

// coilPayload returns the payload bytes of a parsed FC1/FC2 response (nil for anything else).
func coilPayload(resp packet.Response) []byte {
	switch r := resp.(type) {
	case *packet.ReadCoilsResponseTCP:
		return r.Data
	case *packet.ReadCoilsResponseRTU:
		return r.Data
	case *packet.ReadDiscreteInputsResponseTCP:
		return r.Data
	case *packet.ReadDiscreteInputsResponseRTU:
		return r.Data
	}
	return nil
}

func bucketName(n int) string {
	switch {
	case n <= 8:
		return "le8"
	case n < 64:
		return "lt64"
	case n < 256:
		return "lt256"
	}
	return "ge256"
}
