"""Per-property text for evidence files and budgets (seconds of wall time per tier)."""

REAL_CLIENT = ["modbus.Client.Do/Connect/Close (client.go)", "modbus.SerialClient.Do/Close (serialclient.go)",
               "packet.* request constructors, ExpectedResponseLength, response parsers, exception recognisers, CRC16"]
STUB_CLIENT = ["net.Conn / serial port (scripted simulated transport)", "clock and timers (testing/synctest fake clock)",
               "goroutine choice (baton scheduler driven by the choice tape)", "dialling (ClientConfig.DialContextFunc)",
               "the device's replies (reference model written from the Modbus specification)"]

META = {
    "C07": {
        "level": "exploration",
        "budget": {"quick": 35, "thorough": 600},
        "rule": ("each run = one real client (tcp / rtu-over-network / serial, stratified) x one request of one of the 10 functions "
                 "(stratified; arguments tape-chosen, biased to limits) x one well-formed reply from the reference device "
                 "(normal, or exception with code 1..255) x one cut plan (whole, single cut at p, last 1..4 bytes separate, "
                 "one byte per read, random multi-cut) x per-chunk gaps (0, shorter than a per-read deadline, several deadlines => "
                 "empty timed-out reads) x knobs (read timeout, serial port timeout and timeout style, (n>0,EOF) on the last chunk). "
                 "non-trivial = the reply was delivered in >= 2 reads; distinct = distinct schedule fingerprint (sequence of "
                 "transport outcomes with sizes bucketed) among the non-trivial runs."),
        "assumptions": [
            "the serial port honours a finite read timeout (1-100 ms simulated); the library documents it cannot bound a blocking port",
            "FC17 replies use the layout the library documents (byte count of the server id, id, run status, optional extra data)",
            "a reply counts as 'complete and correct' when the reference model (written from the specification) produced it for the request",
            "sampling, not proof: a clean batch is evidence over the reported seeds, fingerprints and probes",
        ],
        "components": {"real": REAL_CLIENT, "stub": STUB_CLIENT},
    },
}
