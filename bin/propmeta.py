"""Per-property text for evidence files and budgets (seconds of wall time per tier)."""

REAL_CLIENT = ["modbus.Client.Do/Connect/Close (client.go)", "modbus.SerialClient.Do/Close (serialclient.go)",
               "packet.* request constructors, ExpectedResponseLength, response parsers, exception recognisers, CRC16"]
STUB_CLIENT = ["net.Conn / serial port (scripted simulated transport)", "clock and timers (testing/synctest fake clock)",
               "goroutine choice (baton scheduler driven by the choice tape)", "dialling (ClientConfig.DialContextFunc)",
               "the device's replies (reference model written from the Modbus specification)"]

META = {
    "C07": {
        "sweep": ('enumerated completely at the start of every run of the check (besides the random search): for every client kind x function x {normal, exception} reply to a small request, every single cut position 1..14 (wrapping at the reply length) x three delay classes before the second chunk, plus one-byte-per-read with and without short gaps; complete over single cuts for replies of up to 15 bytes'),
        "level": "exploration",
        "budget": {"quick": 35, "thorough": 600},
        "rule": ("each run = one real client (tcp / rtu-over-network / serial, stratified) x one request of one of the 10 functions "
                 "(stratified; arguments tape-chosen, biased to limits) x one well-formed reply from the reference device "
                 "(normal, or exception with code 1..255) x one cut plan (whole, single cut at p, last 1..4 bytes separate, "
                 "one byte per read, random multi-cut) x per-chunk gaps (0, shorter than a per-read deadline, several deadlines => "
                 "empty timed-out reads) x knobs (read timeout, serial port timeout and timeout style, (n>0,EOF) on the last chunk). "
                 "non-trivial = the reply was delivered in >= 2 reads; distinct = distinct schedule fingerprint (sequence of "
                 "transport outcomes with sizes bucketed) among the non-trivial runs."
                 ' Additions: a quarter of the random runs use small requests; data delivered together with a tolerated error (io.EOF / deadline exceeded) on serial ports; one long silence of 50-93 % of the read timeout; in a fifth of the runs a second call follows on the same client and the first response is re-examined afterwards.'),
        "assumptions": [
            "the serial port honours a finite read timeout (1-100 ms simulated); the library documents it cannot bound a blocking port",
            "FC17 replies use the layout the library documents (byte count of the server id, id, run status, optional extra data)",
            "a reply counts as 'complete and correct' when the reference model (written from the specification) produced it for the request",
            "sampling, not proof: a clean batch is evidence over the reported seeds, fingerprints and probes",
        ],
        "components": {"real": REAL_CLIENT, "stub": STUB_CLIENT},
    },
    "C08": {
        "sweep": ('enumerated completely: {stall, EOF, I/O error} x client kind x function x {normal, exception} x every prefix length 0..13 of the reply to a small request, the prefix delivered in one read; complete over prefix lengths for replies of up to 14 bytes'),
        "level": "fault_enumeration",
        "budget": {"quick": 35, "thorough": 600},
        "rule": ("each run = one real client (tcp / rtu-over-network / serial) x one request (10 functions) x one fault kind from "
                 "{stall, EOF, I/O error, oversize, write error, short write, cancel before / right after the write / at time t, "
                 "context deadline, not connected, nil request, failing Flush} placed after a tape-chosen strict prefix of the reply "
                 "(every prefix length reachable; 0, len-1 and len-1..4 over-weighted), the prefix itself cut into reads with gaps; "
                 "(fault kind x client kind x function) is stratified so every combination is run; read timeout 5 ms-2 s. "
                 "A fault counts as fired only when the transport actually returned it to the client (or, for cancellation, the call "
                 "outlived it by more than one blocking-read period). distinct = distinct fingerprint of the transport-call outcome sequence; "
                 "every run is non-trivial (it contains a fault)."
                 ' Additions: dial failures (nil and typed-nil connection returned with the error) followed by Do; slow-drip prefixes (gaps of 40 % of the read timeout each, total beyond it); in a third of the stall runs another call (stalled again or healthy) follows on the same client. The time bound is the documented one: read timeout + one blocking read (+30 ms for the serial client) + 1 ms.'),
        "assumptions": [
            "the serial port honours a finite read timeout (<= 100 ms simulated)",
            "bounded time is checked as writeTimeout + readTimeout + 1 s (+30 ms settle sleep + one port timeout for the serial client) of simulated time",
            "cancel and timeout instants are generated at least one blocking-read period apart, because the client polls both with one select and Go picks at random when both are ready (that choice is not a tape decision)",
            "a call that consumed exactly one complete valid reply before the fault became observable may succeed",
            "sampling, not proof",
        ],
        "components": {"real": REAL_CLIENT, "stub": STUB_CLIENT},
    },
    "C12": {
        "sweep": ('enumerated completely: {RTU network client, serial client} x function x {normal, exception} reply to a small request x every single-bit flip in the first 13 bytes x {whole, cut after byte 5, one byte per read}'),
        "level": "fault_enumeration",
        "budget": {"quick": 30, "thorough": 600},
        "rule": ("each run = RTU network client or serial client x one request (10 functions, small replies over-weighted) x a valid RTU reply "
                 "(normal or exception) x one corruption {single bit flip, byte substitution, 2-4 byte burst, truncation at any length, "
                 "extension by 1-6 bytes, duplicated segment, function-code high-bit flip} at a tape-chosen position x any fragmentation "
                 "(a cut after byte 5 over-weighted: that is where the early exception shortcut looks); (client x function x corruption kind) stratified. "
                 "Corruptions that leave the frame CRC-consistent are skipped (outside the premise). The oracle is stated on what the client consumed: "
                 "if Do returned a response or an error that unwraps to *packet.ErrorResponseRTU, the consumed bytes must be CRC-consistent per the reference CRC. "
                 "distinct = distinct transport-outcome fingerprint; every executed run is non-trivial (it contains a corruption)."
                 ' Additions: sequences on one client (the same corrupted reply two or three times; a valid exchange followed by the corrupted reply, with the first response re-examined afterwards); read-server-id replies that reach the 256-byte maximum.'),
        "assumptions": ["reference CRC-16 is the bitwise definition (poly 0xA001, init 0xFFFF), independent of packet.CRC16",
                        "the serial port honours a finite read timeout", "sampling, not proof"],
        "components": {"real": REAL_CLIENT, "stub": STUB_CLIENT},
    },
    "C19": {
        "level": "exploration",
        "budget": {"quick": 30, "thorough": 600},
        "rule": ("each run = a C07-style scenario (fragmented well-formed reply) or a C08-style scenario (terminal fault after a prefix), executed twice from the "
                 "same tapes: with recording hooks and without. Network clients are built with modbus.NewClient and wrapped ParseResponseFunc so that "
                 "parser invocations are observed; the serial client is built with NewSerialClient/WithSerialHooks. Checked: BeforeWrite argument == encoded "
                 "request == bytes the transport received; AfterEachRead calls == the transport's own record of every Read, element for element (window length, "
                 "bytes, n, error identity); BeforeParse exactly once, last, with the concatenation, iff the parser ran; result, transport call sequence and "
                 "elapsed simulated time identical with and without hooks. non-trivial = at least 2 transport reads; distinct = distinct fingerprint."
                 ' Additions: stall / cancel scenarios whose remaining reply bytes arrive after the call has given up, followed by another call on the same client that finds them (hooks and transport record compared per call); data delivered together with a tolerated error.'),
        "assumptions": ["parser invocations of the serial client cannot be observed (no seam): there only 'success implies BeforeParse ran once' is checked",
                        "later reuse of a window already handed to a hook is not checked (the statement does not require it)", "sampling, not proof"],
        "components": {"real": REAL_CLIENT, "stub": STUB_CLIENT},
    },
    "C15": {
        "sweep": ('enumerated completely (client write boundaries = server read boundaries, no pauses): all 2^(n-1) cut sets of one 12-byte request for each of FC1-FC6 and of the 8-byte FC17 request; every single cut and every pair of cuts of one small FC15/FC16/FC23 request (15/17/19 bytes) and of two 12-byte requests sent back to back (24 bytes, pipelined)'),
        "level": "exploration",
        "budget": {"quick": 40, "thorough": 600},
        "rule": ("each run = the real server.Server.Serve + ModbusTCPAssembler on a simulated listener, handler = reference device, 1-3 raw client tasks "
                 "each sending 1-6 valid request frames (10 functions, library encoders) lock-step or pipelined, the client's byte stream cut by one of six cut plans "
                 "(whole frames, one cut inside a header, one cut inside a body, byte-by-byte, random, several frames per write) with pauses up to several server read "
                 "deadlines, link latency, and the server's Reads themselves cut by the tape; plus a twin run of the same request lists arriving whole and lock-step. "
                 "Checked: exactly one reply per request, in order, echoing the transaction id (both runs); reply stream byte-identical to the whole-arrival run; "
                 "normal replies equal the reference device's; at every server write, bytes written <= replies due for the requests completely read so far. "
                 "non-trivial = some cut other than frame boundaries, server-side cuts, or more than one connection; distinct = distinct schedule fingerprint."
                 ' Additions: unsupported-function frames inside the streams; handlers with simulated work of up to 90 ms; server reads that return data together with the deadline error; write deadlines honoured by the simulated connection.'),
        "assumptions": ["requests the library's own request parsers refuse (e.g. 126-2000 coils) are answered with an exception consistently and are not charged to C15",
                        "quiescence = 1 simulated second without the expected reply, then 200 ms of silence to catch extra replies", "sampling, not proof"],
        "components": {"real": ["server.Server.Serve accept loop and connection loop (server/server.go)", "server.ModbusTCPAssembler (server/modbus.go)",
                                "packet.LooksLikeModbusTCP, packet.ParseTCPRequest and per-function request parsers, ErrorResponseTCP.Bytes"],
                       "stub": ["net.Listener / net.Conn (simulated, tape-cut reads, latency)", "ModbusHandler (reference device written from the specification)",
                                "clients (raw byte-stream tasks)", "clock (synctest)", "goroutine choice (baton scheduler)"]},
    },
    "C16": {
        "race_budget": {"quick": 8, "thorough": 90},
        "level": "fault_enumeration",
        "budget": {"quick": 40, "thorough": 600},
        "rule": ("each run = real server + assembler, 1-3 lock-step connections with whole-frame arrival; the subject connection carries 1-5 requests drawn from "
                 "{valid, unsupported function 1..127, out-of-range quantity/value, body shorter than the function needs with a consistent length field, byte count "
                 "disagreeing with length / trailing bytes} x handler behaviour {device answers, packet.NewErrorParseTCP(code), fully filled *ErrorParseTCP, plain error, "
                 "panic, slow}; (class x handler x function) stratified. Three executions per run: all connections; without the subject connection (bystanders must receive "
                 "the same bytes); one subject frame alone on a fresh connection (same reply as inside the sequence; the device is stateless here so replies are a pure function "
                 "of the request). Checked per reply: one well-formed ADU, tid and unit echo, function or function|0x80 with 9 bytes, code 01 for unsupported function, 03 for "
                 "out-of-range when the library or the device (not a failing handler) produced it. distinct = distinct fingerprint; every run is non-trivial."
                 ' Additions: frames of the subject connection arrive in two pieces (cut in the header or in the body) in a third of the cases; typed handler errors may be one shared sentinel value; MBAP length fields far beyond what is sent (0xFFFA-0xFFFF, 0x8000, 254-300); a subject connection that dies in the middle of a frame while the other connections connect only afterwards. A run that spins without reaching a scheduling point is reported as busy_hang after being reproduced in isolation.'),
        "assumptions": ["which requests deserve a normal response is not C16's business: a legal request refused with a well-formed exception passes",
                        "a panicking handler is expected to cost its own connection (closed, no reply); only the process and the other connections must be unaffected",
                        "process crashes are detected by the driver (worker exit) and confirmed by re-running the run in isolation", "sampling, not proof"],
        "components": {"real": ["server.Server.Serve accept loop and connection loop incl. per-connection recover", "server.ModbusTCPAssembler",
                                "packet request parsers and their ~40 error-construction sites, ErrorResponseTCP.Bytes, LooksLikeModbusTCP"],
                       "stub": ["net.Listener / net.Conn", "ModbusHandler (reference device + injected handler faults)", "clients", "clock", "goroutine choice"]},
    },
    "C17": {
        "level": "exploration",
        "budget": {"quick": 35, "thorough": 540},
        "race_budget": {"quick": 12, "thorough": 120},
        "rule": ("each run = the real server.Server.Serve on a simulated listener with one of the 16 set/unset combinations of OnServeFunc/OnErrorFunc/OnAcceptConnFunc/"
                 "OnCloseConnFunc (stratified x controller action), callbacks and handlers being scheduling points with simulated work; 0-5 client tasks that connect after a "
                 "delay, send whole or fragmented requests (handler work 0-200 ms, some panicking), idle, close abruptly or hold the connection; OnAccept rejecting every n-th "
                 "connection; a controller that calls Shutdown (generous or 1-80 ms context) or cancels the serve context at a tape-chosen instant from 0 (while OnServeFunc runs) "
                 "to 400 ms; every mutex acquisition of the server is a scheduling point. Checked: no panic / process crash; the count told to OnAcceptConnFunc lies between "
                 "(tracked - closed) and (tracked - untracked) + 1; rejected connections closed; OnCloseConnFunc exactly once per accepted connection by the end of the drained run; "
                 "after Shutdown returned nil: Serve returned ErrServerClosed without further events, a new dial is refused, every accepted connection is closed by the server, every "
                 "request whose handler had started has its complete reply written; after cancel: Serve returns within 1 simulated second. non-trivial = at least one client; "
                 "distinct = distinct schedule fingerprint."
                 ' Additions: in two thirds of the runs the controller is aimed at an event (n-th handler start, handler end, accept, server write begin) instead of a time, so that windows of zero simulated duration are hit; server-side writes may take simulated time; write deadlines are honoured; a second lifecycle call (another Shutdown, or cancel) by another goroutine, concurrently or a little later.'),
        "assumptions": ["a connection that comes out of Accept only after cancellation / after Shutdown began may be turned away (closed, no callbacks)",
                        "Shutdown returning the context's error (tight context) asserts nothing", "process crashes are detected by the driver and confirmed in isolation",
                        "data races are looked for in race mode only (free-running goroutines under -race; observation, not replayable byte-exactly)", "sampling, not proof"],
        "components": {"real": ["server.Server.Serve, trackConn, connection.handle, Shutdown, Addr (server/server.go)", "server.ModbusTCPAssembler"],
                       "stub": ["net.Listener / net.Conn", "ModbusHandler (reference device with simulated work / panics)", "the four callbacks (recording, parking)", "clients", "clock", "goroutine choice incl. lock hand-off order"]},
    },
    "C14": {
        "level": "exploration",
        "budget": {"quick": 30, "thorough": 540},
        "race_budget": {"quick": 12, "thorough": 120},
        "rule": ("each run = one real Client (TCP or RTU framing) or SerialClient shared by 2-6 caller tasks x 1-5 calls (FC6 writes of globally unique values, FC3 reads of a "
                 "4-register file), optional tasks calling Close and Connect at tape-chosen instants, a device task per connection that decodes requests in arrival order and answers "
                 "after a tape-chosen think time; every mutex acquisition of the client is a scheduling point, so the tape decides who gets the client next and where Close/Connect land; "
                 "(client kind x caller count x close/connect) stratified. Checked: no request is written while another caller's exchange is in progress; every byte sequence written is "
                 "one caller's request; each successful caller got the reply to its own request (tid/unit, echo); the history stamped with scheduler step numbers is linearizable w.r.t. "
                 "a register file (porcupine, failed writes may or may not have happened, failed reads dropped, Unknown never reported). Race mode: the same scenarios with free-running "
                 "goroutines under -race (counted separately). Every run is non-trivial (>= 2 callers); distinct = distinct schedule fingerprint."
                 ' Additions: a quarter of the runs give some calls short context deadlines (attribution oracles off for those runs; transport monitors - no read outside a call, no two concurrent readers - stay on); responses are kept by the callers and re-examined after later calls on the shared client; in a third of the runs SetReadDeadline is a scheduling point too.'),
        "assumptions": ["replies are delivered unfragmented (fragmentation is C07's quantifier and its known findings would blur the verdict)",
                        "calls overlapping Close/Connect may fail; they must not succeed with someone else's reply",
                        "race mode is observation of executions whose interleaving the simulator does not decide; its reports are not replayable byte-exactly", "sampling, not proof"],
        "components": {"real": REAL_CLIENT, "stub": STUB_CLIENT + ["lock hand-off order (tagged simBeforeLock hook + scheduler)"]},
    },
    "C05": {
        "level": "exploration",
        "budget": {"quick": 35, "thorough": 600},
        "rule": ("each run = 1-3 simulated servers x 1-3 unit ids, each a reference device with its own hash-attributable memory (optionally ASCII/NUL patterns), 1-40 valid register fields "
                 "over all 13 types (byte/word orders, string lengths 1-250, exact duplicates, overlaps, coil fields mixed in) clustered around tape-chosen bases {0, the 125-register "
                 "boundary, 65535, the last 125 registers, random}; the real Builder produces FC3 or FC4 requests in TCP or RTU framing (stratified with strict/lenient and base class); "
                 "each request is sent by a real client through DialContextFunc to the device its ServerAddress names; with probability 1/4 per run devices answer reads with only the first "
                 "r < quantity registers and close. Checked: every request seen by a device carries that device's unit and the request's window; every requested field reported exactly "
                 "once on its own definition with the value the reference typed decode gives for that device's memory (exact Go type, floats bitwise); short answers: strict fails as a whole, "
                 "lenient marks exactly the unreachable fields. non-trivial = at least 2 distinct register fields; distinct = distinct schedule fingerprint."
                 ' Additions: server names and unit ids include pairs that collide under careless concatenation (plc1/11 vs plc11/1); the builder is asked for other kinds of requests, or twice, before the requests that are used; one client per server address is kept for the whole poll cycle and all fields are extracted only after the last response has arrived.'),
        "assumptions": ["32/64-bit and string semantics are the ones the library documents (LowWordFirst reverses the register order of the value, LittleEndian reads the resulting bytes little-endian, "
                        "BigEndian strings swap the bytes of each register, NUL-terminated, one rune per byte)", "byte-order flags on 8/16-bit fields are documented as irrelevant and are not generated",
                        "valid field = its registers lie inside the 16-bit address space", "replies are delivered unfragmented", "sampling, not proof"],
        "components": {"real": ["modbus.Builder / split / batchToRequests (builder.go, splitter.go)", "BuilderRequest.ExtractFields, Field.ExtractFrom", "packet.Registers accessors, AsRegisters",
                                "modbus.Client (TCP and RTU framing) incl. FC3/FC4 constructors and response parsers"],
                       "stub": ["devices (reference model from the specification, per server address and unit id)", "network (simulated connections routed by DialContextFunc)", "clock", "goroutine choice"]},
    },
    "C11": {
        "level": "exploration",
        "budget": {"quick": 30, "thorough": 600},
        "rule": ("each run = write-multiple-coils (library packing) of a tape-chosen pattern of 1-1968 coils through a real client to a reference device that stores coils per the "
                 "specification layout, then a read of an overlapping window of 1-2000 coils (FC1) or discrete inputs (FC2), TCP or RTU, either direct (IsCoilSet/IsInputSet asked for every "
                 "address in the payload window, and 5 addresses before and 5 beyond) or through builder coil fields + ExtractFields; (framing x function x size class x via-builder) stratified. "
                 "Checked: lookup == the device's coil (padding bits zero), error exactly outside [start, start+8*len(payload)). The observed mapping is classified by formula so that a known "
                 "defect is matched by what it does, not by where it is. non-trivial = payload longer than one byte; distinct = distinct fingerprint."
                 ' Additions: one client for the whole session with another exchange between obtaining a response and querying it; builder coil fields in two clusters more than 2000 addresses apart (several requests); the same payload assembled in code (with and without the byte-count field) must answer every lookup like the parsed response.'),
        "assumptions": ["the device model is the specification (coil start+i is bit i mod 8 of payload byte i div 8)", "sampling, not proof"],
        "components": {"real": ["packet.NewWriteMultipleCoilsRequest*, CoilsToBytes", "ReadCoilsResponse.IsCoilSet, ReadDiscreteInputsResponse.IsInputSet/IsCoilSet, isBitSet", "builder coil batching and extractCoilFields", "modbus.Client"],
                       "stub": ["device", "network", "clock", "goroutine choice"]},
    },
    "C13": {
        "level": "exploration",
        "budget": {"quick": 25, "thorough": 540},
        "race_budget": {"quick": 10, "thorough": 120},
        "rule": ("each run = one FC3/FC4 response (TCP or RTU framing) obtained by a real client from a reference device whose registers hold a mix of hash values and ASCII/NUL pairs, then "
                 "shared by 1-4 reader tasks; each reader performs 1-12 reads drawn from all 23 exported Registers accessors (all byte/word orders, addresses inside, at the edges of and outside the "
                 "window, string lengths up to 250) and ExtractFields strict/lenient over overlapping fields, with repeats; readers share one *Registers or each makes its own view of the shared "
                 "response; the scheduler interleaves readers at call granularity; (framing x function x first operation) stratified. Checked after every call: the response re-encodes to the "
                 "bytes it had on arrival; the call's result equals the result of the same call on a fresh private copy of the arrival snapshot (so results are independent of order and history); "
                 "the same call repeated returns the same result. Race mode: the same readers as free goroutines under -race. Every run is non-trivial; distinct = distinct fingerprint "
                 "(which includes the operation kinds)."
                 " Additions: for ExtractFields the expected result is every field extracted alone, each from its own private copy (so a field's value may not depend on which other fields are extracted with it, nor on their order)."),
        "assumptions": ["what the right value is belongs to C04/C05; C13 only compares against the same code on a private copy", "FC23 responses cannot be obtained through the clients on this tree (known finding of C07) and are not used",
                        "race mode is observation, not replayable byte-exactly", "sampling, not proof"],
        "components": {"real": ["packet.Registers accessors", "BuilderRequest.ExtractFields / Field.ExtractFrom", "response parsers and AsRegisters", "modbus.Client"],
                       "stub": ["device", "network", "clock", "goroutine choice (order of reads by several consumers)"]},
    },
}

# What the third wave of seeded changes added to the generators and oracles (appended to the rule texts above).
_W3 = {
    "C05": " Third-wave additions: fields are added in one to three stages (Add or AddAll), the builder being asked for requests between the stages.",
    "C07": " Third-wave additions: idle gaps of up to 1.5 x the read timeout between the calls of a sequence.",
    "C08": (" Third-wave additions: contexts that expire by their own deadline; a read-timeout error reported before the read timeout can have elapsed is a violation (premature_timeout); "
            "follow-up calls after a faulted call on a transport that keeps dripping bytes (each call of a sequence is bounded separately); oversize replies of which only the first 1-14 bytes are genuine, the flood arriving in a later read; a connection that refuses the write deadline (network clients); a Flush that fails after the complete reply (serial client); a call that ends at the cancel instant with no transport event to explain it must report the context's error."),
    "C12": " Third-wave additions: call sequences on one client (good and corrupted replies mixed), end-of-stream right after a corrupted reply, hooks optionally installed, read-server-id replies up to 256 bytes.",
    "C13": " Third-wave additions: hand-built BuilderRequest.Fields containing coil fields at any position; the caller's field list is compared with its state before the call.",
    "C14": (" Third-wave additions: the serial port optionally implements Flusher (Flush discards what is buffered and is itself a scheduling point); "
            "a call that fails although the transport was healthy and nobody closed or cancelled is a violation (call_failed_on_healthy_transport)."),
    "C15": " Third-wave additions: bursts of more than 260 bytes of legal requests arriving in one read (22+ small requests, or a maximum-size write followed by the start of the next request).",
    "C16": (" Third-wave additions: a reader that stalls in the middle of a reply while the transport accepts only a prefix of the write before the write deadline (anything written to that connection afterwards is a violation); "
            "race mode: the same scenarios as free goroutines under -race."),
    "C17": " Third-wave additions: a second lifecycle call (Shutdown again after a timed-out one, or concurrently); each Shutdown that returns nil owes everything; lifecycle actions at time 0, before Serve is called.",
}
_W4 = {
    "C07": " Fourth-wave additions: the call under test may follow a call abandoned by timeout or by its context; the serial test port's Flush discards what has arrived.",
    "C08": " Fourth-wave additions: injected I/O errors carry the identities real transports report (ECONNRESET, EPIPE, ECONNABORTED, net.ErrClosed, io.ErrClosedPipe, io.ErrUnexpectedEOF, bare or in *net.OpError); floods that never end; floods that begin with a well-formed frame of another conversation; serial port variant with SetReadDeadline and without Flush.",
    "C11": " Fourth-wave additions: lookups 2048*k, 32768 and 65535 addresses away from the window in both directions.",
    "C12": " Fourth-wave additions: corruption kind leading_bytes (1-3 foreign bytes, or the tail of a frame like this one, in front of the valid frame).",
    "C13": " Fourth-wave additions: in a third of the runs the extraction ops go through one request value made by the request builder, with permuted field lists; values handed out earlier are re-rendered after all later extractions; definitions listed twice and several definitions on one register; extraction results are compared as sets of (definition, value, failed) triples, identical calls by exact rendering.",
    "C14": " Fourth-wave additions: logging hooks on the shared client in a third of the runs, every hook call a scheduling point; the hooks of two request calls must not interleave.",
    "C17": " Fourth-wave additions: server-side connections fail a second Close (net.ErrClosed) in half of the runs; a connection already reported to the close callback does not count as live.",
    "C19": " Fourth-wave additions: read timeouts reported as *net.OpError wrapping the sentinel; serial port variant with SetReadDeadline and without Flush; the hook-less twin built with WithSerialHooks(nil).",
}
_W5 = {
    "C05": " Fifth-wave additions: builders created with non-trivial default server / unit; the unit-id pool starts at a tape-chosen place (unit 0, 255 and the colliding pairs are all drawn).",
    "C07": " Fifth-wave additions: before a follow-up call the client may be connected again (with or without Close; the dial function hands out generations of the connection); protocol constructors given a config that names one of the protocol's own functions.",
    "C08": " Fifth-wave additions: a foreign timeout error (net.Error, not wrapping os.ErrDeadlineExceeded) among the I/O error identities.",
    "C13": " Fifth-wave additions: the views' default byte order is configured per run; byte orders on 16-bit definitions.",
    "C14": " Fifth-wave additions: a second Close task; dialling and closing the port take simulated time; short client timeouts (20 ms / 2 ms) in a third of the network runs.",
    "C15": " Fifth-wave additions: the handler keeps every request object it is given and re-encodes it after the traffic.",
    "C16": " Fifth-wave additions: the handler keeps every request object it is given and re-encodes it after the traffic.",
    "C17": " Fifth-wave additions: handlers that watch their context; after a serving ended by cancellation the same Server value serves again on a new listener (one request, then cancel or Shutdown).",
    "C19": " Fifth-wave additions: follow-up calls after Connect / Close+Connect; a read still in progress when Do returns can never be reported to the hooks (read_never_reported).",
}
_W6 = {
    "C07": " Sixth-wave additions: unit ids 0, 255, 248; drawn addresses include 0, 1, 0xFFFF, 255/256 and the sign boundaries; RTU read replies in which a register holds the CRC of what precedes it.",
    "C08": " Sixth-wave additions: unit ids 0, 255, 248; a success with nothing read has its own signature (nothing_was_read).",
    "C11": " Sixth-wave additions: after the write the device's memory (unpacked as the specification says) must equal the written pattern (write_packing_differs).",
    "C12": " Sixth-wave additions: corruption kinds crc_swapped and crc_bytes_only (damage confined to the CRC trailer).",
    "C14": " Sixth-wave additions: callers may start at unit id 0; read-server-id calls (22-byte vendor string) among the operations.",
    "C17": " Sixth-wave additions: requests to unit ids 0 and 255; a Shutdown context that has already expired.",
    "C19": " Sixth-wave additions: half of the network clients come from the protocol's own constructor (NewTCPClientWithConfig / NewRTUClientWithConfig) instead of NewClient with an observable parser.",
}
_W7 = {
    "C07": " Seventh-wave additions: read timeouts reported as *net.OpError / *fs.PathError / %w-annotated errors; register values at which representations change or that resemble protocol bytes; transaction ids 0 and 65535; the application formats (logs) what it received.",
    "C08": " Seventh-wave additions: wrapped timeout errors; serial read timeouts of 0, 50 ns, 1 us; endless floods that fill every read to the brim; a call that comes back only during teardown counts as not returned; floods crafted to fit a junk byte count behind eight genuine bytes (known finding mbap_length_ignored). Eighth-wave addition: after an oversize reply in an endless flood the application calls again on the same client.",
    "C11": " Seventh-wave additions: the application formats (logs) the response before looking coils up.",
    "C12": " Seventh-wave additions: extensions made of line-idle bytes (0xFF / 0x00).",
    "C13": " Seventh-wave additions: the application formats (logs) the response and the view between reads; special register values.",
    "C14": " Seventh-wave additions: every mutex of the library is a simulated one (TryLock is a scheduling point and can fail); transports that report timeouts as *net.OpError or %w-annotated errors.",
    "C15": " Seventh-wave additions: slow talkers (two pauses of 13-20 simulated seconds); write data that reads like a frame header; handler panics with error / runtime-error / uncomparable values.",
    "C16": " Seventh-wave additions: seconds between the two pieces of a frame; handler panics with error / runtime-error / uncomparable values.",
    "C17": " Seventh-wave additions: long sessions (action after 26-30 s, silent connections dropped by the idle limit first); listeners whose peers all report one remote address (callback oracles become totals); panics with uncomparable values.",
    "C19": " Seventh-wave additions: hooks of a value type installed by value; wrapped timeout errors on all client kinds.",
}
_W9 = {
    "C07": " Ninth-wave addition: a third of the network clients are built with NewClient and the protocol's functions.",
    "C08": " Ninth-wave addition: the faulty exchange may follow a healthy one and a reconnect (Connect again, or Close then Connect).",
    "C11": " Ninth-wave addition: hand-made coil field lists over the same response (a coil under two names, addresses before and beyond the payload), lenient extraction.",
    "C13": " Ninth-wave addition: read kind FieldExtractFrom (one field definition decoded from the caller's own Registers view).",
    "C15": " Ninth-wave addition: bursts of 3-8 maximum-size write requests sent back to back.",
    "C16": " Ninth-wave addition: in an eighth of the runs the subject sends early (two requests in one write, the rest a little later); those runs are checked on the stream as a whole: every frame addressed to one of the requests, none answered twice, in request order, exception shape per class.",
    "C19": " Ninth-wave addition: bytes of something else right behind the reply, in the same read.",
}
_W10 = {
    "C05": " Tenth-wave addition: field lists of 64000-69000 entries (1 run in 1000).",
    "C07": " Tenth-wave addition: long histories - the call under test follows 16-45, 200-400 or 254-257/511 healthy exchanges on the same client (in a third of them every reply takes up to 60 ms); every response of the history must still re-encode to its reply at the end.",
    "C08": " Tenth-wave addition: the faulty exchange may follow a long history of healthy ones on the same client; an oversize reply that ends is met after each exchange of the history.",
    "C12": " Tenth-wave addition: long histories in which the same corrupted reply follows each healthy exchange; idle gaps of up to 3 s; leading 0x00/0xFF bytes.",
    "C13": " Tenth-wave addition: one response read 280-780 times through views made again and again.",
    "C14": " Tenth-wave addition: crowds of 33-132 callers (transport monitors only); 1 run in 15000: three callers making more than 65536 calls.",
    "C15": " Tenth-wave addition: long sessions, one connection with 90-430 requests.",
    "C16": " Tenth-wave addition: a crowd of 66-130 clients that send one request and hang up before the reply, ahead of the connections under test.",
    "C17": " Tenth-wave addition: many-clients runs with up to 1100 clients (half of those: every one rejected), long-lived connections arriving around the 256th; 1 run in 10000: one connection answered more than 65536 times before a graceful shutdown aimed at its next handler.",
    "C19": " Tenth-wave addition: long histories of fragmented, hooked exchanges before the exchange under test, each held to the same obligations; idle gaps of up to 3 s.",
}
_W11 = {
    "C05": " Eleventh-wave addition: byte orders that are a word order alone (LowWordFirst / HighWordFirst).",
    "C07": " Eleventh-wave additions: network reads that return bytes together with the deadline error; non-blocking connections whose empty reads return (0, nil); the rest of an abandoned reply arriving late, followed by a new Connect (late bytes stay with the old connection unless the client did not really dial).",
    "C11": " Eleventh-wave addition: extraction from a copy of the response held by value must equal extraction from the response.",
    "C12": " Eleventh-wave additions: RTU network clients built by the RTU constructor from a config that names parse functions (its own or the CRC-less ones); serial ports that fail for good while handing over their last bytes.",
    "C13": " Eleventh-wave additions: byte orders that are a word order alone; callers that use the bytes returned by Register/DoubleRegister/QuadRegister as scratch memory.",
    "C14": " Eleventh-wave additions: non-blocking connections (empty reads return (0, nil)); overlapping Close calls inside the serial port are noted.",
    "C15": " Eleventh-wave additions: handlers that build every reply in one scratch buffer (valid until their next call); servers whose AssemblerCreatorFunc is written out by the application.",
    "C16": " Eleventh-wave additions: handler errors that wrap a downstream *packet.ErrorResponseTCP; server reads returning data with the deadline error; the exported assembler used directly with replies held across reads.",
    "C17": " Eleventh-wave addition: listeners whose Accept answers with an error of their own after Close.",
    "C19": " Eleventh-wave addition: network reads that return bytes together with the deadline error.",
}
_W12 = {
    "C07": " Twelfth-wave addition: dial functions that tie the connection to the context they were given.",
    "C08": " Twelfth-wave addition: a logging hook that panics once at its first write/read/parse call, recovered by the application; the next call on the client must return in bounded time.",
    "C12": " Twelfth-wave addition: pauses of 55-255 ms inside corrupted replies; foreign leading bytes arriving on their own, the frame after a pause.",
    "C16": " Twelfth-wave addition: handler mode rewrites_request_then_fails (re-addresses the request object in place, then returns a plain error).",
    "C17": " Twelfth-wave addition: in a third of the runs the accept, close and error callbacks call Server.Addr() while they run.",
    "C19": " Twelfth-wave addition: hooks that take 0.6-2 ms of simulated time per call (healthy gap-free replies; only the result is compared with the hook-less twin then).",
}
_W13 = {
    "C17": " Thirteenth-wave addition: handlers that take 1.2-3 s without looking at their context; servers with a read timeout of 3 s.",
    "C08": " Thirteenth-wave addition: a third of the cancellation runs cancel with a cause (context.WithCancelCause / WithTimeoutCause); the call must still report the context's error.",
}
for _k, _v in _W3.items():
    META[_k]["rule"] += _v
for _k, _v in _W4.items():
    META[_k]["rule"] += _v
for _k, _v in _W5.items():
    META[_k]["rule"] += _v
for _k, _v in _W6.items():
    META[_k]["rule"] += _v
for _k, _v in _W7.items():
    META[_k]["rule"] += _v
for _k, _v in _W9.items():
    META[_k]["rule"] += _v
for _k, _v in _W10.items():
    META[_k]["rule"] += _v
for _k, _v in _W11.items():
    META[_k]["rule"] += _v
for _k, _v in _W12.items():
    META[_k]["rule"] += _v
for _k, _v in _W13.items():
    META[_k]["rule"] += _v
