"""Per-property text for evidence files and budgets (seconds of wall time per tier)."""

REAL_CLIENT = ["modbus.Client.Do/Connect/Close (client.go)", "modbus.SerialClient.Do/Close (serialclient.go)",
               "packet.* request constructors, ExpectedResponseLength, response parsers, exception recognisers, CRC16"]
STUB_CLIENT = ["net.Conn / serial port (scripted simulated transport)", "clock and timers (testing/synctest fake clock)",
               "goroutine choice (baton scheduler driven by the choice tape)", "dialling (ClientConfig.DialContextFunc)",
               "the device's replies (reference model written from the Modbus specification)"]

META = {
    "C07": {
        "level": "exploration",
        "budget": {"quick": 35, "thorough": 600},
        "rule": ("each run = one real client (tcp / rtu-over-network / serial, stratified) x one request of one of the 10 functions "
                 "(stratified; arguments tape-chosen, biased to limits) x one well-formed reply from the reference device "
                 "(normal, or exception with code 1..255) x one cut plan (whole, single cut at p, last 1..4 bytes separate, "
                 "one byte per read, random multi-cut) x per-chunk gaps (0, shorter than a per-read deadline, several deadlines => "
                 "empty timed-out reads) x knobs (read timeout, serial port timeout and timeout style, (n>0,EOF) on the last chunk). "
                 "non-trivial = the reply was delivered in >= 2 reads; distinct = distinct schedule fingerprint (sequence of "
                 "transport outcomes with sizes bucketed) among the non-trivial runs."),
        "assumptions": [
            "the serial port honours a finite read timeout (1-100 ms simulated); the library documents it cannot bound a blocking port",
            "FC17 replies use the layout the library documents (byte count of the server id, id, run status, optional extra data)",
            "a reply counts as 'complete and correct' when the reference model (written from the specification) produced it for the request",
            "sampling, not proof: a clean batch is evidence over the reported seeds, fingerprints and probes",
        ],
        "components": {"real": REAL_CLIENT, "stub": STUB_CLIENT},
    },
    "C08": {
        "level": "fault_enumeration",
        "budget": {"quick": 35, "thorough": 600},
        "rule": ("each run = one real client (tcp / rtu-over-network / serial) x one request (10 functions) x one fault kind from "
                 "{stall, EOF, I/O error, oversize, write error, short write, cancel before / right after the write / at time t, "
                 "context deadline, not connected, nil request, failing Flush} placed after a tape-chosen strict prefix of the reply "
                 "(every prefix length reachable; 0, len-1 and len-1..4 over-weighted), the prefix itself cut into reads with gaps; "
                 "(fault kind x client kind x function) is stratified so every combination is run; read timeout 5 ms-2 s. "
                 "A fault counts as fired only when the transport actually returned it to the client (or, for cancellation, the call "
                 "outlived it by more than one blocking-read period). distinct = distinct fingerprint of the transport-call outcome sequence; "
                 "every run is non-trivial (it contains a fault)."),
        "assumptions": [
            "the serial port honours a finite read timeout (<= 100 ms simulated)",
            "bounded time is checked as writeTimeout + readTimeout + 1 s (+30 ms settle sleep + one port timeout for the serial client) of simulated time",
            "cancel and timeout instants are generated at least one blocking-read period apart, because the client polls both with one select and Go picks at random when both are ready (that choice is not a tape decision)",
            "a call that consumed exactly one complete valid reply before the fault became observable may succeed",
            "sampling, not proof",
        ],
        "components": {"real": REAL_CLIENT, "stub": STUB_CLIENT},
    },
    "C12": {
        "level": "fault_enumeration",
        "budget": {"quick": 30, "thorough": 600},
        "rule": ("each run = RTU network client or serial client x one request (10 functions, small replies over-weighted) x a valid RTU reply "
                 "(normal or exception) x one corruption {single bit flip, byte substitution, 2-4 byte burst, truncation at any length, "
                 "extension by 1-6 bytes, duplicated segment, function-code high-bit flip} at a tape-chosen position x any fragmentation "
                 "(a cut after byte 5 over-weighted: that is where the early exception shortcut looks); (client x function x corruption kind) stratified. "
                 "Corruptions that leave the frame CRC-consistent are skipped (outside the premise). The oracle is stated on what the client consumed: "
                 "if Do returned a response or an error that unwraps to *packet.ErrorResponseRTU, the consumed bytes must be CRC-consistent per the reference CRC. "
                 "distinct = distinct transport-outcome fingerprint; every executed run is non-trivial (it contains a corruption)."),
        "assumptions": ["reference CRC-16 is the bitwise definition (poly 0xA001, init 0xFFFF), independent of packet.CRC16",
                        "the serial port honours a finite read timeout", "sampling, not proof"],
        "components": {"real": REAL_CLIENT, "stub": STUB_CLIENT},
    },
    "C19": {
        "level": "exploration",
        "budget": {"quick": 30, "thorough": 600},
        "rule": ("each run = a C07-style scenario (fragmented well-formed reply) or a C08-style scenario (terminal fault after a prefix), executed twice from the "
                 "same tapes: with recording hooks and without. Network clients are built with modbus.NewClient and wrapped ParseResponseFunc so that "
                 "parser invocations are observed; the serial client is built with NewSerialClient/WithSerialHooks. Checked: BeforeWrite argument == encoded "
                 "request == bytes the transport received; AfterEachRead calls == the transport's own record of every Read, element for element (window length, "
                 "bytes, n, error identity); BeforeParse exactly once, last, with the concatenation, iff the parser ran; result, transport call sequence and "
                 "elapsed simulated time identical with and without hooks. non-trivial = at least 2 transport reads; distinct = distinct fingerprint."),
        "assumptions": ["parser invocations of the serial client cannot be observed (no seam): there only 'success implies BeforeParse ran once' is checked",
                        "later reuse of a window already handed to a hook is not checked (the statement does not require it)", "sampling, not proof"],
        "components": {"real": REAL_CLIENT, "stub": STUB_CLIENT},
    },
}
