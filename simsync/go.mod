module simsync

go 1.21
