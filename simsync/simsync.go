// Package simsync stands in for sync.Mutex / sync.RWMutex in the scratch copy of the library that the checks build
// (bin/check rewrites the field types there; /repo itself is never touched). Every method is the real one of an embedded
// sync.RWMutex, preceded by a call into the simulator when one is installed: Lock and RLock first wait at a scheduling
// point until the simulator has decided that this goroutine goes next and the real mutex is free (so the real Lock that
// follows never blocks), TryLock and TryRLock are plain scheduling points. Because the seam is the mutex type, it does
// not matter how the library acquires it (Lock, a TryLock loop, a helper function) or whether a change adds new
// mutexes. With no simulator installed the types behave exactly like the ones in package sync.
package simsync

import (
	"sync"
	"sync/atomic"
)

// Hooks are the simulator's entry points.
type Hooks struct {
	BeforeLock func(m *sync.RWMutex, write bool) // returns when the real acquisition that follows will not block
	AfterLock  func(m *sync.RWMutex)              // the real mutex is now held
	Yield      func(m *sync.RWMutex)              // a non-blocking attempt is about to be made
}

var hooks atomic.Pointer[Hooks]

// Install sets (or, with nil, removes) the simulator's hooks for the whole process.
func Install(h *Hooks) { hooks.Store(h) }

// RWMutex replaces sync.RWMutex.
type RWMutex struct{ m sync.RWMutex }

func (l *RWMutex) Lock() {
	h := hooks.Load()
	if h != nil {
		h.BeforeLock(&l.m, true)
	}
	l.m.Lock()
	if h != nil {
		h.AfterLock(&l.m)
	}
}

func (l *RWMutex) RLock() {
	h := hooks.Load()
	if h != nil {
		h.BeforeLock(&l.m, false)
	}
	l.m.RLock()
	if h != nil {
		h.AfterLock(&l.m)
	}
}

func (l *RWMutex) TryLock() bool {
	if h := hooks.Load(); h != nil {
		h.Yield(&l.m)
	}
	ok := l.m.TryLock()
	if ok {
		if h := hooks.Load(); h != nil {
			h.AfterLock(&l.m)
		}
	}
	return ok
}

func (l *RWMutex) TryRLock() bool {
	if h := hooks.Load(); h != nil {
		h.Yield(&l.m)
	}
	ok := l.m.TryRLock()
	if ok {
		if h := hooks.Load(); h != nil {
			h.AfterLock(&l.m)
		}
	}
	return ok
}

func (l *RWMutex) Unlock()  { l.m.Unlock() }
func (l *RWMutex) RUnlock() { l.m.RUnlock() }

// RLocker mirrors sync.RWMutex.RLocker.
func (l *RWMutex) RLocker() sync.Locker { return (*rlocker)(l) }

type rlocker RWMutex

func (r *rlocker) Lock()   { (*RWMutex)(r).RLock() }
func (r *rlocker) Unlock() { (*RWMutex)(r).RUnlock() }

// Mutex replaces sync.Mutex.
type Mutex struct{ rw RWMutex }

func (l *Mutex) Lock()         { l.rw.Lock() }
func (l *Mutex) Unlock()       { l.rw.Unlock() }
func (l *Mutex) TryLock() bool { return l.rw.TryLock() }
